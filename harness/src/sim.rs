//! Simulated SD card behind embedded_hal::spi::SpiDevice: a Rust transcription of spec/SdCard.tla.
//! Every transition is logged as a bus event, so TLC validates the simulator against the
//! specification at the same time as the driver (SdTrace).

use embedded_hal::spi::{ErrorKind, ErrorType, Operation, SpiDevice};
use serde_json::{json, Value as J};
use std::cell::RefCell;
use std::collections::{HashMap, VecDeque};
use std::rc::Rc;

#[derive(Debug, Clone, Copy)]
pub struct SimErr;
impl embedded_hal::spi::Error for SimErr {
    fn kind(&self) -> ErrorKind {
        ErrorKind::Other
    }
}

#[derive(Clone, Copy, PartialEq, Eq, Debug)]
pub enum Kind {
    Sd1,
    Sd2,
    Sdhc,
}

#[derive(Clone, Copy, PartialEq, Eq, Debug)]
pub enum Mode {
    Cmd,
    RdSingle,
    RdMulti,
    WrSingle,
    WrMulti,
}

/// independent bit-serial CRCs (SD spec polynomials), not the library's
pub fn crc7_ref(data: &[u8]) -> u8 {
    let mut reg: u8 = 0;
    for &b in data {
        for i in (0..8).rev() {
            let bit = (b >> i) & 1;
            let top = (reg >> 6) & 1;
            reg = (reg << 1) & 0x7F;
            if top ^ bit == 1 {
                reg ^= 0x09;
            }
        }
    }
    (reg << 1) | 1
}
pub fn crc16_ref(data: &[u8]) -> u16 {
    let mut reg: u16 = 0;
    for &b in data {
        for i in (0..8).rev() {
            let bit = ((b >> i) & 1) as u16;
            let top = (reg >> 15) & 1;
            reg <<= 1;
            if top ^ bit == 1 {
                reg ^= 0x1021;
            }
        }
    }
    reg
}

pub fn set_bits(csd: &mut [u8; 16], hi: usize, lo: usize, val: u32) {
    // bit 127 is the msb of byte 0
    for (k, bit) in (lo..=hi).enumerate() {
        let v = (val >> k) & 1;
        let byte = 15 - bit / 8;
        let sh = bit % 8;
        csd[byte] = (csd[byte] & !(1 << sh)) | ((v as u8) << sh);
    }
}

/// CSD register from its fields, per SD Physical Layer spec 5.3
pub fn mkcsd(ver: u32, c_size: u32, mult: u32, bl_len: u32, erase_en: u32) -> [u8; 16] {
    let mut c = [0u8; 16];
    set_bits(&mut c, 127, 126, ver);
    set_bits(&mut c, 119, 112, 0x0E); // TAAC
    set_bits(&mut c, 103, 96, 0x32); // TRAN_SPEED
    set_bits(&mut c, 95, 84, 0x5B5); // CCC
    set_bits(&mut c, 83, 80, bl_len);
    if ver == 0 {
        set_bits(&mut c, 73, 62, c_size);
        set_bits(&mut c, 49, 47, mult);
    } else {
        set_bits(&mut c, 69, 48, c_size);
    }
    set_bits(&mut c, 46, 46, erase_en); // ERASE_BLK_EN
    set_bits(&mut c, 45, 39, 0x7F);
    set_bits(&mut c, 25, 22, 9);
    let crc = crc7_ref(&c[0..15]);
    c[15] = crc;
    c
}

pub struct Misb {
    pub when: String,
    pub nth: u64,
    pub what: String,
    pub arg: i64,
    pub seen: u64,
    pub fired: bool,
}

pub struct Card {
    pub kind: Kind,
    pub powered: bool, // CMD0 seen since power up / death
    pub idle: bool,
    pub ready: bool,
    pub v2ok: bool,
    pub mode: Mode,
    pub crc_on: bool,
    pub app: bool,
    pub acmd41_need: u32,
    pub acmd41_left: u32,
    pub busy_left: u64,
    pub outq: VecDeque<u8>,
    pub frame: Vec<u8>,
    pub block: Vec<u8>,
    pub in_block: bool,
    pub cur_addr: u32,
    pub rd_next: u32,
    pub oor_quirk: bool,
    pub rd_active: bool,
    pub mem: HashMap<u32, Box<[u8; 512]>>,
    pub nblocks: u32,
    pub csd: [u8; 16],
    pub resp_delay: u32,
    pub tok_delay: u32,
    pub busy_len: u64,
    pub rng: u64,
    pub random_timing: bool,
    pub misb: Vec<Misb>,
    pub dead_from: Option<u64>, // total byte index from which the card stops responding
    pub dead_val: u8,
    pub total_bytes: u64,
    pub call_bytes: u64,
    pub budget: u64,
    pub over_budget: bool,
    pub spi_error_at: Option<u64>,
    pub log: Vec<J>,
    pub idle_run: u64,
    pub idle_busy: u64,
    pub pay_ids: HashMap<Vec<u8>, i64>,
    pub next_pay: i64,
    pub last_cmd: i64,
    pub pre_armed: bool,
    pub pre_erase: u32,
    pub clock_since_cmd: u64,
    pub pending_data: Vec<u8>,
    pub busy_pending: u64,
    pub block_token: u8,
    pub block_busy: bool,
}

pub fn default_block(b: u32) -> [u8; 512] {
    let mut d = [0u8; 512];
    for (i, x) in d.iter_mut().enumerate() {
        *x = ((b as usize * 31 + i * 7 + (i >> 5)) & 0xFF) as u8;
    }
    d[0] = (b >> 8) as u8;
    d[1] = b as u8;
    d
}

impl Card {
    pub fn new(kind: Kind, nblocks: u32, csd: [u8; 16]) -> Card {
        Card {
            kind, powered: false, idle: false, ready: false, v2ok: false, mode: Mode::Cmd, crc_on: false, app: false,
            acmd41_need: 1, acmd41_left: 1, busy_left: 0, outq: VecDeque::new(), frame: Vec::new(), block: Vec::new(),
            in_block: false, cur_addr: 0, rd_next: 0, oor_quirk: false, rd_active: false, mem: HashMap::new(), nblocks, csd,
            resp_delay: 1, tok_delay: 2, busy_len: 3, rng: 1, random_timing: false, misb: Vec::new(), dead_from: None,
            dead_val: 0xFF, total_bytes: 0, call_bytes: 0, budget: u64::MAX, over_budget: false, spi_error_at: None,
            log: Vec::new(), idle_run: 0, idle_busy: 0, pay_ids: HashMap::new(), next_pay: 1, last_cmd: -1, pre_armed: false, pre_erase: 0, clock_since_cmd: 0,
            pending_data: Vec::new(), busy_pending: 0, block_token: 0, block_busy: false,
        }
    }
    fn rnd(&mut self, n: u64) -> u64 {
        self.rng = self.rng.wrapping_add(0x9E37_79B9_7F4A_7C15);
        let mut z = self.rng;
        z = (z ^ (z >> 30)).wrapping_mul(0xBF58_476D_1CE4_E5B9);
        z = (z ^ (z >> 27)).wrapping_mul(0x94D0_49BB_1331_11EB);
        (z ^ (z >> 31)) % n.max(1)
    }
    pub fn block_data(&self, b: u32) -> [u8; 512] {
        match self.mem.get(&b) {
            Some(x) => **x,
            None => default_block(b),
        }
    }
    pub fn pay_id(&mut self, data: &[u8]) -> i64 {
        if let Some(&id) = self.pay_ids.get(data) {
            return id;
        }
        -1
    }
    pub fn register_payload(&mut self, data: &[u8]) -> i64 {
        if let Some(&id) = self.pay_ids.get(data) {
            return id;
        }
        let id = self.next_pay;
        self.next_pay += 1;
        self.pay_ids.insert(data.to_vec(), id);
        id
    }
    fn misb_hit(&mut self, when: &str) -> Option<(String, i64)> {
        // every pending misbehaviour keyed on this kind of event counts the event; the first that is due fires
        let mut hit = None;
        for m in self.misb.iter_mut() {
            if m.when == when && !m.fired {
                m.seen += 1;
                if m.nth == 0 && hit.is_none() {
                    // nth = 0: every time (a card that always answers this way)
                    hit = Some((m.what.clone(), m.arg));
                } else if m.seen == m.nth && hit.is_none() {
                    m.fired = true;
                    hit = Some((m.what.clone(), m.arg));
                }
            }
        }
        hit
    }
    pub fn flush_idle_pub(&mut self) {
        self.flush_idle();
    }
    fn flush_idle(&mut self) {
        if self.idle_run > 0 {
            self.log.push(json!({"ev": "Idle", "n": self.idle_run.min(1 << 30), "busy": self.idle_busy.min(1 << 30)}));
            self.idle_run = 0;
            self.idle_busy = 0;
        }
    }
    fn delay(&mut self, base: u32) -> u32 {
        if self.random_timing {
            self.rnd(9) as u32
        } else {
            base
        }
    }
    fn queue_r1(&mut self, r1: u8, extra: &[u8]) -> (u32, u8) {
        let d = self.delay(self.resp_delay).min(8);
        for _ in 0..d {
            self.outq.push_back(0xFF);
        }
        self.outq.push_back(r1);
        for &e in extra {
            self.outq.push_back(e);
        }
        (d, r1)
    }
    fn addr_to_block(&self, arg: u32) -> Option<u32> {
        match self.kind {
            Kind::Sdhc => Some(arg),
            _ => {
                if arg % 512 == 0 {
                    Some(arg / 512)
                } else {
                    None
                }
            }
        }
    }
    fn queue_data_block(&mut self, data: &[u8], what: &str) -> J {
        // card -> host data block: N_AC delay, token, payload, crc
        let mut payload = data.to_vec();
        let crc = crc16_ref(&payload);
        let mut crcb = crc.to_be_bytes();
        let mut token = 0xFEu8;
        let td = self.delay(self.tok_delay);
        let mut misb = "none".to_string();
        let mut detail: i64 = 0;
        if let Some((w, a)) = self.misb_hit("data") {
            misb = w.clone();
            detail = a;
            match w.as_str() {
                "flip" => {
                    // a: bit index in payload+crc (0 .. len*8+16)
                    let total_bits = payload.len() * 8 + 16;
                    let bit = (a as usize) % total_bits;
                    if bit < payload.len() * 8 {
                        payload[bit / 8] ^= 0x80 >> (bit % 8);
                    } else {
                        let k = bit - payload.len() * 8;
                        crcb[k / 8] ^= 0x80 >> (k % 8);
                    }
                }
                "burst" => {
                    // a: start bit, burst of 16 bits with both ends flipped and a pattern inside
                    let total_bits = payload.len() * 8 + 16;
                    let start = (a as usize) % (total_bits - 16);
                    for (k, on) in [true, false, true, true, false, false, true, false, true, false, false, true, true, false, true, true].iter().enumerate() {
                        if *on {
                            let bit = start + k;
                            if bit < payload.len() * 8 {
                                payload[bit / 8] ^= 0x80 >> (bit % 8);
                            } else {
                                let q = bit - payload.len() * 8;
                                crcb[q / 8] ^= 0x80 >> (q % 8);
                            }
                        }
                    }
                }
                "spi" => {
                    self.spi_error_at = Some(self.total_bytes + 1);
                    misb = "none".to_string();
                }
                "errtoken" => token = 0x09, // data error token (out of range)
                "badtoken" => token = 0xFC,
                "notoken" => token = 0xFF,
                _ => {}
            }
        }
        let silent = misb == "notoken";
        if !silent {
            for _ in 0..td {
                self.outq.push_back(0xFF);
            }
            self.outq.push_back(token);
            if token == 0xFE {
                for &b in &payload {
                    self.outq.push_back(b);
                }
                self.outq.push_back(crcb[0]);
                self.outq.push_back(crcb[1]);
            }
        }
        let sent_ok = crc16_ref(&payload).to_be_bytes() == crcb && payload == data;
        json!({"what": what, "tokdelay": td, "token": token, "misb": misb, "arg": detail, "intact": sent_ok && token == 0xFE && !silent})
    }

    fn process_cmd(&mut self) {
        let f = self.frame.clone();
        self.frame.clear();
        let idx = f[0] & 0x3F;
        let arg = u32::from_be_bytes([f[1], f[2], f[3], f[4]]);
        let crcok = crc7_ref(&f[0..5]) == f[5];
        let endbit = f[5] & 1 == 1;
        let was_app = self.app;
        let was_busy = self.busy_left > 0;
        let pending = self.outq.len();
        let mode_before = self.mode;
        let mut ev = json!({"ev": "Cmd", "idx": idx, "ah": arg >> 16, "al": arg & 0xFFFF, "crcok": crcok, "endbit": endbit,
            "acmd": was_app, "busy": was_busy, "pending": pending, "mode": format!("{:?}", mode_before),
            "gap": self.clock_since_cmd, "prev": self.last_cmd});
        self.app = false;
        let pre_armed = self.pre_armed;
        self.pre_armed = false;
        self.last_cmd = if was_app { 100 + idx as i64 } else { idx as i64 };
        self.clock_since_cmd = 0;
        // a command arriving while data is being sent (multi read): only CMD12 is meaningful
        let idlebit: u8 = if self.idle { 1 } else { 0 };
        let mut r1: u8;
        let mut extra: Vec<u8> = Vec::new();
        let mut data: Option<J> = None;
        let needs_crc = self.crc_on || idx == 0 || idx == 8;
        let mut misb = "none".to_string();
        let key = if was_app { format!("acmd{}", idx) } else { format!("cmd{}", idx) };
        let mut marg: i64 = 0;
        if let Some((w, a)) = self.misb_hit(&key) {
            misb = w;
            marg = a;
        } else if let Some((w, a)) = self.misb_hit("cmd") {
            misb = w;
            marg = a;
        }
        if misb == "spi" {
            self.spi_error_at = Some(self.total_bytes + 1);
            misb = "none".to_string();
        }
        if misb == "silent" {
            // the card does not react to this frame at all
            ev["r1"] = json!(-1);
            ev["delay"] = json!(0);
            ev["extra"] = json!([]);
            ev["misb"] = json!(misb);
            ev["data"] = json!({"what": "none"});
            self.log.push(ev);
            return;
        }
        if idx == 12 && (self.mode == Mode::RdMulti) {
            self.outq.clear();
            self.pending_data.clear();
            self.rd_active = false;
            self.mode = Mode::Cmd;
            self.outq.push_back(0xFF); // stuff byte
            // a card whose read-ahead ran past the last block of the user area when the transfer is stopped may say so
            // (OUT_OF_RANGE, physical layer specification 4.3.3): legal, the data it delivered is good and the host ignores it
            r1 = if self.oor_quirk && self.rd_next >= self.nblocks { 0x40 } else { 0 };
            let (d, _) = self.queue_r1(r1, &[]);
            let b = self.busy_len;
            self.busy_after_queue(b);
            ev["r1"] = json!(r1);
            ev["delay"] = json!(d);
            ev["misb"] = json!(misb);
            ev["extra"] = json!([]);
            ev["data"] = json!({"what": "none"});
            self.log.push(ev);
            return;
        }
        if misb == "r1crc" {
            r1 = 0x08 | idlebit; // "communication CRC error", command not executed
        } else if misb == "r1ill" {
            r1 = 0x04 | idlebit; // "illegal command", command not executed
        } else if misb == "r1err" {
            r1 = 0x20 | idlebit; // error bit set, command not executed
        } else if needs_crc && (!crcok || !endbit) {
            r1 = 0x08 | idlebit;
        } else if !self.powered && idx != 0 {
            r1 = 0x04 | idlebit; // not in SPI mode yet: treat as illegal
        } else {
            match (was_app, idx) {
                (_, 0) => {
                    self.powered = true;
                    self.idle = true;
                    self.ready = false;
                    self.v2ok = false;
                    self.crc_on = false;
                    self.mode = Mode::Cmd;
                    self.acmd41_left = self.acmd41_need;
                    self.outq.clear();
                    self.pending_data.clear();
                    self.busy_pending = 0;
                    self.busy_left = 0;
                    r1 = 0x01;
                }
                (false, 59) => {
                    self.crc_on = arg & 1 == 1;
                    r1 = idlebit;
                }
                (false, 8) => {
                    if self.kind == Kind::Sd1 {
                        r1 = 0x04 | idlebit;
                    } else {
                        self.v2ok = true;
                        r1 = idlebit;
                        extra = vec![0x00, 0x00, ((arg >> 8) & 0x0F) as u8, (arg & 0xFF) as u8];
                    }
                }
                (false, 55) => {
                    self.app = true;
                    r1 = idlebit;
                }
                (true, 41) => {
                    let hcs = arg & 0x4000_0000 != 0;
                    let can = match self.kind {
                        Kind::Sd1 => true,
                        Kind::Sd2 => self.v2ok,
                        Kind::Sdhc => self.v2ok && hcs,
                    };
                    if !self.idle {
                        r1 = 0; // already ready
                    } else if can && self.acmd41_left == 0 {
                        self.idle = false;
                        self.ready = true;
                        r1 = 0;
                    } else {
                        if self.acmd41_left > 0 {
                            self.acmd41_left -= 1;
                        }
                        r1 = 1;
                    }
                }
                (false, 58) => {
                    r1 = idlebit;
                    let ccs = self.kind == Kind::Sdhc && self.ready;
                    extra = vec![if ccs { 0xC0 } else if self.ready { 0x80 } else { 0x00 }, 0xFF, 0x80, 0x00];
                }
                (false, 9) if self.ready => {
                    r1 = 0;
                    let csd = self.csd;
                    data = Some(self.prepare_data(&csd, "csd"));
                }
                (false, 13) if self.ready => {
                    r1 = 0;
                    let mut st2 = 0u8;
                    if misb == "status" {
                        st2 = if marg > 0 && marg < 256 { marg as u8 } else { 0x04 };
                    } else if misb == "status1" {
                        r1 = if marg > 0 && marg < 256 { marg as u8 } else { 0x40 };
                    }
                    extra = vec![st2];
                }
                (false, 17) | (false, 18) if self.ready => match self.addr_to_block(arg) {
                    Some(b) if b < self.nblocks => {
                        r1 = 0;
                        self.cur_addr = b;
                        if idx == 17 {
                            let d = self.block_data(b);
                            data = Some(self.prepare_data(&d, "block"));
                        } else {
                            self.rd_next = b;
                            self.rd_active = true;
                            self.mode = Mode::RdMulti;
                        }
                    }
                    _ => r1 = 0x40,
                },
                (false, 24) | (false, 25) if self.ready => match self.addr_to_block(arg) {
                    Some(b) if b < self.nblocks => {
                        r1 = 0;
                        self.cur_addr = b;
                        self.mode = if idx == 24 { Mode::WrSingle } else { Mode::WrMulti };
                        if idx == 25 && pre_armed {
                            // the announced number of blocks is erased before the first one arrives
                            let k = self.pre_erase.min(64);
                            for x in b..b.saturating_add(k).min(self.nblocks) {
                                self.mem.insert(x, Box::new([0xFFu8; 512]));
                            }
                            ev["erased"] = json!(k);
                        }
                    }
                    _ => r1 = 0x40,
                },
                (true, 23) if self.ready => {
                    r1 = 0;
                    self.pre_erase = arg & 0x007F_FFFF;
                    self.pre_armed = true;
                }
                _ => r1 = 0x04 | idlebit,
            }
        }
        match misb.as_str() {
            "silent" => {
                // no response at all
                ev["r1"] = json!(-1);
                ev["delay"] = json!(0);
                ev["extra"] = json!([]);
                ev["misb"] = json!(misb);
                ev["data"] = json!({"what": "none"});
                if self.mode == Mode::RdMulti {
                    self.mode = Mode::Cmd;
                    self.rd_active = false;
                }
                if self.mode == Mode::WrSingle || self.mode == Mode::WrMulti {
                    self.mode = Mode::Cmd;
                }
                self.log.push(ev);
                return;
            }
            "r1err" | "r1ill" | "r1crc" => {}
            "badecho" => {
                if extra.len() == 4 {
                    extra[3] ^= 0xFF;
                }
            }
            _ => {}
        }
        let (d, _) = self.queue_r1(r1, &extra);
        ev["r1"] = json!(r1);
        ev["delay"] = json!(d);
        ev["misb"] = json!(misb);
        ev["extra"] = json!(extra);
        if let Some(dj) = data {
            ev["data"] = dj;
        } else {
            ev["data"] = json!({"what": "none"});
        }
        self.log.push(ev);
    }
    fn prepare_data(&mut self, data: &[u8], what: &str) -> J {
        // the data block follows the response; queue_data_block appends to outq after the response
        // (process_cmd queues the response afterwards, so stash and re-append)
        let saved: Vec<u8> = self.outq.drain(..).collect();
        let j = self.queue_data_block(data, what);
        let blockbytes: Vec<u8> = self.outq.drain(..).collect();
        for b in saved {
            self.outq.push_back(b);
        }
        self.pending_data = blockbytes;
        j
    }
    fn busy_after_queue(&mut self, n: u64) {
        self.busy_pending = n;
    }
}

// small extension fields kept outside the constructor list for readability
impl Card {
    pub fn exchange(&mut self, mosi: u8) -> Result<u8, SimErr> {
        self.total_bytes += 1;
        self.call_bytes += 1;
        if self.call_bytes > self.budget {
            self.over_budget = true;
            return Err(SimErr);
        }
        if let Some(k) = self.spi_error_at {
            if self.total_bytes == k {
                self.spi_fail(k);
                return Err(SimErr);
            }
        }
        // an SPI failure on the n-th token byte (start block / stop) the host sends in a write
        if !self.in_block && self.frame.is_empty() && matches!(self.mode, Mode::WrSingle | Mode::WrMulti) && matches!(mosi, 0xFE | 0xFC | 0xFD) {
            if let Some((w, _)) = self.misb_hit("tok") {
                if w == "spi" {
                    let k = self.total_bytes;
                    self.spi_fail(k);
                    return Err(SimErr);
                }
            }
        }
        if let Some(k) = self.dead_from {
            if self.total_bytes >= k {
                if self.total_bytes == k {
                    self.flush_idle();
                    self.log.push(json!({"ev": "Dead", "at": k, "val": self.dead_val}));
                    // a dead card forgets everything
                    self.powered = false;
                    self.ready = false;
                    self.idle = false;
                    self.mode = Mode::Cmd;
                    self.outq.clear();
                    self.frame.clear();
                    self.in_block = false;
                }
                return Ok(self.dead_val);
            }
        }
        Ok(self.step(mosi))
    }

    /// the bus transaction fails: the card is released (chip select goes up), nothing is pending any more
    fn spi_fail(&mut self, k: u64) {
        self.flush_idle();
        self.log.push(json!({"ev": "SpiError", "at": k}));
        self.frame.clear();
        self.in_block = false;
        self.block.clear();
        self.outq.clear();
        self.pending_data.clear();
        self.busy_pending = 0;
        self.mode = Mode::Cmd;
        self.rd_active = false;
        self.app = false;
    }

    fn next_out(&mut self) -> u8 {
        if let Some(b) = self.outq.pop_front() {
            if self.outq.is_empty() {
                // after the response: data block, then busy
                if !self.pending_data.is_empty() {
                    let pd = std::mem::take(&mut self.pending_data);
                    for x in pd {
                        self.outq.push_back(x);
                    }
                } else if self.busy_pending > 0 {
                    self.busy_left = self.busy_pending;
                    self.busy_pending = 0;
                }
            }
            return b;
        }
        if self.busy_left > 0 {
            if self.busy_left != u64::MAX {
                self.busy_left -= 1;
            }
            self.idle_busy += 1;
            return 0x00;
        }
        if self.mode == Mode::RdMulti && self.rd_active {
            // next block of a multi-block read
            if self.rd_next < self.nblocks {
                let d = self.block_data(self.rd_next);
                let j = self.queue_data_block(&d, "block");
                self.flush_idle();
                if j["misb"] == "notoken" {
                    self.rd_active = false; // the card falls silent
                }
                self.log.push(json!({"ev": "NextBlock", "blk": self.rd_next, "data": j}));
                self.rd_next += 1;
                if let Some(b) = self.outq.pop_front() {
                    return b;
                }
            } else {
                self.rd_active = false;
            }
        }
        0xFF
    }

    fn step(&mut self, mosi: u8) -> u8 {
        // --- a command frame in progress
        if !self.frame.is_empty() {
            self.frame.push(mosi);
            let out = if self.mode == Mode::RdMulti { self.next_out() } else { 0xFF };
            if self.frame.len() == 6 {
                self.process_cmd();
            }
            return out;
        }
        // --- receiving a data block from the host
        if self.in_block {
            self.block.push(mosi);
            if self.block.len() == 514 {
                self.finish_block();
            }
            return 0xFF;
        }
        match self.mode {
            Mode::WrSingle | Mode::WrMulti => {
                if mosi == 0xFF {
                    self.idle_run += 1;
                    self.clock_since_cmd += 1;
                    return self.next_out();
                }
                let still_busy = self.busy_left > 0 || !self.outq.is_empty();
                if mosi == 0xFE || mosi == 0xFC {
                    self.flush_idle();
                    self.in_block = true;
                    self.block.clear();
                    self.block_token = mosi;
                    self.block_busy = still_busy;
                    return 0xFF;
                }
                if mosi == 0xFD {
                    self.flush_idle();
                    self.log.push(json!({"ev": "Stop", "mode": format!("{:?}", self.mode), "busy": still_busy}));
                    if self.mode == Mode::WrMulti {
                        self.mode = Mode::Cmd;
                        self.outq.push_back(0xFF);
                        self.busy_pending = self.busy_len;
                    }
                    return 0xFF;
                }
                if mosi & 0xC0 == 0x40 {
                    // a command instead of data
                    self.flush_idle();
                    self.frame.push(mosi);
                    return 0xFF;
                }
                self.flush_idle();
                self.log.push(json!({"ev": "Junk", "byte": mosi, "mode": format!("{:?}", self.mode)}));
                0xFF
            }
            _ => {
                if mosi == 0xFF {
                    self.idle_run += 1;
                    self.clock_since_cmd += 1;
                    return self.next_out();
                }
                if mosi & 0xC0 == 0x40 {
                    self.flush_idle();
                    if self.mode != Mode::RdMulti && !self.outq.is_empty() {
                        // the card is still sending (the rest of a data packet, a response): a frame that starts now collides with it
                        self.log.push(json!({"ev": "Junk", "byte": mosi, "mode": "Overlap"}));
                    }
                    self.frame.push(mosi);
                    return if self.mode == Mode::RdMulti { self.next_out() } else { 0xFF };
                }
                self.flush_idle();
                self.log.push(json!({"ev": "Junk", "byte": mosi, "mode": format!("{:?}", self.mode)}));
                0xFF
            }
        }
    }

    fn finish_block(&mut self) {
        self.in_block = false;
        let payload: Vec<u8> = self.block[..512].to_vec();
        let crc = u16::from_be_bytes([self.block[512], self.block[513]]);
        let crcok = crc16_ref(&payload) == crc;
        let token = self.block_token;
        let want = if self.mode == Mode::WrSingle { 0xFE } else { 0xFC };
        let mut resp: u8 = 0x05; // accepted
        let mut misb = "none".to_string();
        if token != want {
            resp = 0x0D; // treat as write error
        } else if self.crc_on && !crcok {
            resp = 0x0B; // crc error
        }
        if let Some((w, _)) = self.misb_hit("write") {
            misb = w.clone();
            match w.as_str() {
                "crcreject" => resp = 0x0B,
                "writeerr" => resp = 0x0D,
                "garbage" => resp = 0x1F,
                "spi" => {
                    self.spi_error_at = Some(self.total_bytes + 1);
                    misb = "none".to_string();
                }
                _ => {}
            }
        }
        let accepted = resp & 0x1F == 0x05;
        let blk = self.cur_addr;
        let id = self.pay_id(&payload);
        if accepted && blk < self.nblocks {
            let mut d = [0u8; 512];
            d.copy_from_slice(&payload);
            self.mem.insert(blk, Box::new(d));
        }
        self.outq.push_back(0xE0 | resp);
        let mut busy = self.busy_len;
        if misb == "busyforever" {
            busy = u64::MAX;
        }
        self.busy_pending = busy;
        self.log.push(json!({"ev": "WrBlock", "token": token, "mode": format!("{:?}", self.mode), "blk": blk, "pay": id,
            "crcok": crcok, "resp": resp, "misb": misb, "stored": accepted && blk < self.nblocks, "hostbusy": self.block_busy,
            "busy": if busy == u64::MAX { -1 } else { busy as i64 }}));
        if self.mode == Mode::WrSingle {
            self.mode = Mode::Cmd;
        } else if accepted {
            self.cur_addr += 1;
        }
    }
}

pub struct SimSpi(pub Rc<RefCell<Card>>);
impl ErrorType for SimSpi {
    type Error = SimErr;
}
impl SpiDevice<u8> for SimSpi {
    fn transaction(&mut self, operations: &mut [Operation<'_, u8>]) -> Result<(), SimErr> {
        let mut c = self.0.borrow_mut();
        for op in operations.iter_mut() {
            match op {
                // what goes out on MOSI while only reading is up to the HAL ("typically 0x00, 0xFF, or configurable"): this one
                // sends zeros - a driver that needs the line high has to say so (transfer with 0xFF)
                Operation::Read(buf) => {
                    for b in buf.iter_mut() {
                        *b = c.exchange(0x00)?;
                    }
                }
                Operation::Write(buf) => {
                    for b in buf.iter() {
                        c.exchange(*b)?;
                    }
                }
                Operation::Transfer(rd, wr) => {
                    let n = rd.len().max(wr.len());
                    for i in 0..n {
                        let o = if i < wr.len() { wr[i] } else { 0x00 };
                        let r = c.exchange(o)?;
                        if i < rd.len() {
                            rd[i] = r;
                        }
                    }
                }
                Operation::TransferInPlace(buf) => {
                    for b in buf.iter_mut() {
                        *b = c.exchange(*b)?;
                    }
                }
                Operation::DelayNs(_) => {}
            }
        }
        Ok(())
    }
}

pub struct SimDelay(pub Rc<RefCell<u64>>);
impl embedded_hal::delay::DelayNs for SimDelay {
    fn delay_ns(&mut self, _ns: u32) {
        *self.0.borrow_mut() += 1;
    }
}
