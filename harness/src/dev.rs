//! Sparse RAM block device with logging, fault injection and write cut-off.
//!
//! Content = explicit blocks + a default-content function (ballast FAT sectors,
//! poisoned data area, zero elsewhere), so a 32 MiB FAT32 volume costs nothing.

use embedded_sdmmc::{Block, BlockCount, BlockDevice, BlockIdx};
use std::cell::RefCell;
use std::collections::HashMap;
use std::rc::Rc;

pub type Blk = [u8; 512];

#[derive(Clone, Debug)]
pub enum DevCall {
    Read { n: u64, blk: u32, failed: bool },
    Write { n: u64, blk: u32, failed: bool, data: Box<Blk>, prev: Box<Blk> },
}

/// How default (never written) blocks look.
#[derive(Clone, Debug)]
pub struct DefaultRule {
    /// (first block, len, kind) kind: 0 zero, 1 fat16 ballast, 2 fat32 ballast, 3 poison
    pub regions: Vec<(u32, u32, u8)>,
}

pub fn poison_slot(blk: u32, i: usize) -> [u8; 32] {
    let mut s = [0u8; 32];
    let nm = format!("STALE~{:02X}   ", (blk as usize * 16 + i) & 0xFF);
    s[..11].copy_from_slice(nm.as_bytes());
    s[11] = if i % 2 == 0 { 0x10 } else { 0x20 };
    s[14] = 0x21;
    s[15] = 0x08;
    s[16] = 0x21;
    s[17] = 0x30;
    s[22] = 0x21;
    s[23] = 0x08;
    s[24] = 0x21;
    s[25] = 0x30;
    let c = 3 + ((blk as usize + i) % 5) as u16;
    s[26..28].copy_from_slice(&c.to_le_bytes());
    s[28..32].copy_from_slice(&0x0000_0234u32.to_le_bytes());
    s
}

pub fn poison_block(blk: u32) -> Blk {
    let mut b = [0u8; 512];
    for i in 0..16 {
        b[i * 32..i * 32 + 32].copy_from_slice(&poison_slot(blk, i));
    }
    b
}

impl DefaultRule {
    pub fn content(&self, blk: u32) -> Blk {
        for &(s, l, k) in &self.regions {
            if blk >= s && blk - s < l {
                return match k {
                    1 => {
                        let mut b = [0u8; 512];
                        for i in 0..256 {
                            b[i * 2] = 0xF7;
                            b[i * 2 + 1] = 0xFF;
                        }
                        b
                    }
                    2 => {
                        let mut b = [0u8; 512];
                        for i in 0..128 {
                            b[i * 4..i * 4 + 4].copy_from_slice(&0x0FFF_FFF7u32.to_le_bytes());
                        }
                        b
                    }
                    3 => poison_block(blk),
                    _ => [0u8; 512],
                };
            }
        }
        [0u8; 512]
    }
}

pub struct DevState {
    pub blocks: HashMap<u32, Box<Blk>>,
    pub rule: DefaultRule,
    pub num_blocks: u32,
    /// device-call counter (reads and writes), 1-based after increment
    pub calls: u64,
    /// fail exactly the call with this index (1-based)
    pub fail_at: Option<u64>,
    /// fail every call with index >= this (dead device)
    pub fail_from: Option<u64>,
    /// additional faults (multi-fault sequences)
    pub fail_set: Vec<u64>,
    pub log: Vec<DevCall>,
    pub logging: bool,
}

impl DevState {
    pub fn get(&self, blk: u32) -> Blk {
        match self.blocks.get(&blk) {
            Some(b) => **b,
            None => self.rule.content(blk),
        }
    }
    pub fn put(&mut self, blk: u32, data: &Blk) {
        self.blocks.insert(blk, Box::new(*data));
    }
    fn should_fail(&self, n: u64) -> bool {
        self.fail_at == Some(n)
            || self.fail_from.map(|f| n >= f).unwrap_or(false)
            || self.fail_set.contains(&n)
    }
}

#[derive(Clone)]
pub struct SparseDev(pub Rc<RefCell<DevState>>);

#[derive(Debug, Clone, Copy)]
pub struct DevErr;

impl SparseDev {
    pub fn new(rule: DefaultRule, num_blocks: u32) -> Self {
        SparseDev(Rc::new(RefCell::new(DevState {
            blocks: HashMap::new(),
            rule,
            num_blocks,
            calls: 0,
            fail_at: None,
            fail_from: None,
            fail_set: Vec::new(),
            log: Vec::new(),
            logging: true,
        })))
    }
    /// Deep copy of the medium (no log, no faults).
    pub fn snapshot(&self) -> SparseDev {
        let s = self.0.borrow();
        SparseDev(Rc::new(RefCell::new(DevState {
            blocks: s.blocks.clone(),
            rule: s.rule.clone(),
            num_blocks: s.num_blocks,
            calls: 0,
            fail_at: None,
            fail_from: None,
            fail_set: Vec::new(),
            log: Vec::new(),
            logging: false,
        })))
    }
}

impl BlockDevice for SparseDev {
    type Error = DevErr;
    fn read(&self, blocks: &mut [Block], start: BlockIdx) -> Result<(), DevErr> {
        let mut s = self.0.borrow_mut();
        for (i, b) in blocks.iter_mut().enumerate() {
            s.calls += 1;
            let n = s.calls;
            let blk = start.0 + i as u32;
            if s.should_fail(n) {
                // scribble on the buffer: a failed read leaves garbage behind
                for (k, x) in b.contents.iter_mut().enumerate() {
                    *x = 0xA5 ^ (k as u8);
                }
                if s.logging {
                    s.log.push(DevCall::Read { n, blk, failed: true });
                }
                return Err(DevErr);
            }
            b.contents = s.get(blk);
            if s.logging {
                s.log.push(DevCall::Read { n, blk, failed: false });
            }
        }
        Ok(())
    }
    fn write(&self, blocks: &[Block], start: BlockIdx) -> Result<(), DevErr> {
        let mut s = self.0.borrow_mut();
        for (i, b) in blocks.iter().enumerate() {
            s.calls += 1;
            let n = s.calls;
            let blk = start.0 + i as u32;
            let prev = s.get(blk);
            if s.should_fail(n) {
                if s.logging {
                    s.log.push(DevCall::Write {
                        n,
                        blk,
                        failed: true,
                        data: Box::new(b.contents),
                        prev: Box::new(prev),
                    });
                }
                return Err(DevErr);
            }
            s.put(blk, &b.contents);
            if s.logging {
                s.log.push(DevCall::Write {
                    n,
                    blk,
                    failed: false,
                    data: Box::new(b.contents),
                    prev: Box::new(prev),
                });
            }
        }
        Ok(())
    }
    fn num_blocks(&self) -> Result<BlockCount, DevErr> {
        Ok(BlockCount(self.0.borrow().num_blocks))
    }
}
