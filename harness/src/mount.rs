//! C15: open_volume on valid and mutated partition tables, boot sectors and information sectors.

use crate::dev::SparseDev;
use crate::fs::{err_name, panic_msg, sfn_bytes, Clock};
use crate::mkfs::{self, Geo};
use crate::vals::{Rng, Vals};
use embedded_sdmmc::{VolumeIdx, VolumeManager};
use serde_json::{json, Value as J};
use std::cell::Cell;
use std::io::Write;
use std::panic::{catch_unwind, AssertUnwindSafe};
use std::rc::Rc;

fn fld(x: u64) -> i64 {
    if x < (1 << 31) {
        x as i64
    } else {
        -1
    }
}

fn fields(dev: &SparseDev, slot: usize) -> J {
    let st = dev.0.borrow();
    let mbr = st.get(0);
    let p = 446 + slot * 16;
    let le16 = |b: &[u8], o: usize| u16::from_le_bytes([b[o], b[o + 1]]) as u64;
    let le32 = |b: &[u8], o: usize| u32::from_le_bytes([b[o], b[o + 1], b[o + 2], b[o + 3]]) as u64;
    let lba = le32(&mbr, p + 8);
    let bs = st.get(lba as u32);
    let fsinfo = le16(&bs, 48);
    let info = st.get((lba as u32).wrapping_add(fsinfo as u32));
    // the other three slots of the table, as (type, start, length) with the 32-bit numbers as pairs of halves
    let pair = |x: u64| json!([(x >> 16) & 0xFFFF, x & 0xFFFF]);
    let others: Vec<J> = (0..4)
        .filter(|o| *o != slot)
        .map(|o| {
            let q = 446 + o * 16;
            json!({"ptype": mbr[q + 4], "lba": pair(le32(&mbr, q + 8)), "len": pair(le32(&mbr, q + 12))})
        })
        .collect();
    json!({
        "others": others,
        "mbrsig": le16(&mbr, 510) == 0xAA55, "pstat": mbr[p], "ptype": mbr[p + 4], "lba": fld(lba), "len": fld(le32(&mbr, p + 12)),
        "bpbsig": le16(&bs, 510) == 0xAA55, "bps": le16(&bs, 11), "spc": bs[13], "resv": le16(&bs, 14), "nfats": bs[16],
        "rootent": le16(&bs, 17), "tot16": le16(&bs, 19), "fatsz16": le16(&bs, 22), "tot32": fld(le32(&bs, 32)),
        "fatsz32": fld(le32(&bs, 36)), "fsver": le16(&bs, 42), "rootclus": fld(le32(&bs, 44)), "fsinfo": fsinfo,
        "infosig": le32(&info, 0) == 0x4161_5252 && le32(&info, 484) == 0x6141_7272 && le32(&info, 508) == 0xAA55_0000,
    })
}

type Vm = VolumeManager<SparseDev, Clock, 4, 4, 1>;

fn listing(dev: SparseDev, slot: usize) -> (String, String, Vec<String>, String) {
    let clock = Clock(Rc::new(Cell::new(0)));
    let vm: Vm = VolumeManager::new_with_limits(dev, clock, 100);
    listing_with(&vm, slot)
}

/// One manager, two looks at the medium: open `slot0` (and close it again if that worked), let `change` rewrite the medium
/// through `VolumeManager::device`, then open `slot1` - the answer must be the one a fresh manager gives for the medium as it is now.
fn relisting(dev: SparseDev, slot0: usize, change: &dyn Fn(&mut SparseDev), slot1: usize) -> (String, String, Vec<String>, String) {
    let clock = Clock(Rc::new(Cell::new(0)));
    let vm: Vm = VolumeManager::new_with_limits(dev, clock.clone(), 100);
    let first = catch_unwind(AssertUnwindSafe(|| {
        if let Ok(v) = vm.open_raw_volume(VolumeIdx(slot0)) {
            let _ = vm.close_volume(v);
        }
    }));
    if first.is_err() {
        return ("panic".into(), "first open panicked".into(), vec![], "na".into());
    }
    let _ = vm.device(|d| {
        change(d);
        clock.clone()
    });
    listing_with(&vm, slot1)
}

fn listing_with(vm: &Vm, slot: usize) -> (String, String, Vec<String>, String) {
    // (result kind, message, names, post status)
    let r = catch_unwind(AssertUnwindSafe(|| vm.open_raw_volume(VolumeIdx(slot))));
    match r {
        Err(p) => ("panic".into(), panic_msg(&p), vec![], "na".into()),
        Ok(Err(e)) => ("err".into(), err_name(&e), vec![], "na".into()),
        Ok(Ok(v)) => {
            let post = catch_unwind(AssertUnwindSafe(|| -> Result<Vec<String>, String> {
                let d = vm.open_root_dir(v).map_err(|e| err_name(&e))?;
                let mut names = Vec::new();
                let mut n = 0;
                vm.iterate_dir(d, |de| {
                    n += 1;
                    if n < 64 {
                        names.push(crate::vals::hex(&sfn_bytes(&de.name)));
                    }
                })
                .map_err(|e| err_name(&e))?;
                Ok(names)
            }));
            match post {
                Ok(Ok(names)) => ("ok".into(), "".into(), names, "ok".into()),
                Ok(Err(e)) => ("ok".into(), "".into(), vec![], format!("err:{}", e)),
                Err(p) => ("ok".into(), "".into(), vec![], format!("panic:{}", panic_msg(&p))),
            }
        }
    }
}

pub fn mount_vectors(specs: &J, out: &mut dyn Write, tier: &str, seed: u64) -> J {
    let quick = tier == "quick";
    let mut n = 0u64;
    let mut rng = Rng(seed ^ 0xC15);
    for spec in specs["images"].as_array().unwrap() {
        let mut vals = Vals::new(vec![0]);
        let img = mkfs::build(spec, &mut vals);
        let g: Geo = img.geos[0].clone();
        let slot = g.slot;
        let (bk, bmsg, base_names, _) = listing(img.dev.snapshot(), slot);
        let geo = json!({"fatStart": g.fat_start, "dataStart": g.data_start, "count": g.count});
        let mut emit = |mut_desc: String, dev: SparseDev, benign: bool, out: &mut dyn Write, n: &mut u64| {
            let f = fields(&dev, slot);
            let (k, msg, names, post) = listing(dev, slot);
            let j = json!({"ev": "Mount", "mut": mut_desc, "f": f, "r": k, "msg": msg, "same": names == base_names, "post": post, "benign": benign, "geo": geo, "base": mut_desc.starts_with("unchanged image")});
            serde_json::to_writer(&mut *out, &j).unwrap();
            out.write_all(b"\n").unwrap();
            *n += 1;
        };
        emit(format!("unchanged image (baseline open: {} {})", bk, bmsg), img.dev.snapshot(), true, out, &mut n);
        let lba = g.part_start;
        let infob = g.info_blk;
        // (block, offset, width, name)
        let p = 446 + slot * 16;
        let mut sites: Vec<(u32, usize, usize, &str)> = vec![
            (0, 510, 2, "mbr.signature"), (0, p, 1, "mbr.status"), (0, p + 4, 1, "mbr.type"), (0, p + 8, 4, "mbr.lba"), (0, p + 12, 4, "mbr.len"),
            (lba, 11, 2, "bytes_per_sector"), (lba, 13, 1, "sectors_per_cluster"), (lba, 14, 2, "reserved"), (lba, 16, 1, "num_fats"),
            (lba, 17, 2, "root_entries"), (lba, 19, 2, "total16"), (lba, 21, 1, "media"), (lba, 22, 2, "fatsz16"), (lba, 32, 4, "total32"),
            (lba, 36, 4, "fatsz32"), (lba, 42, 2, "fsver"), (lba, 44, 4, "root_cluster"), (lba, 48, 2, "fsinfo"), (lba, 510, 2, "bpb.signature"),
        ];
        if infob != 0 {
            sites.extend_from_slice(&[(infob, 0, 4, "info.lead"), (infob, 484, 4, "info.struc"), (infob, 488, 4, "info.free"), (infob, 492, 4, "info.next"), (infob, 508, 4, "info.trail")]);
        }
        let benign_sites: Vec<(u32, usize, usize, &str)> = vec![(lba, 3, 8, "oem name"), (lba, 0, 3, "jump"), (lba, 24, 4, "geometry hints"), (lba, 28, 4, "hidden sectors"),
            (lba, if g.fat32 { 71 } else { 43 }, 11, "bpb label"), (lba, if g.fat32 { 67 } else { 39 }, 4, "serial")];
        for &(blk, off, w, name) in &sites {
            let cur = {
                let st = img.dev.0.borrow();
                let b = st.get(blk);
                let mut v = 0u64;
                for i in 0..w {
                    v |= (b[off + i] as u64) << (8 * i);
                }
                v
            };
            let maxv: u64 = if w >= 8 { u64::MAX } else { (1u64 << (8 * w)) - 1 };
            let mut cands: Vec<u64> = vec![0, 1, 2, maxv, maxv - 1, cur.wrapping_add(1) & maxv, cur.wrapping_sub(1) & maxv, maxv / 2 + 1];
            if w == 1 {
                cands = (0..=255).collect();
            }
            if !quick {
                for _ in 0..16 {
                    cands.push(rng.next() & maxv);
                }
            }
            cands.sort();
            cands.dedup();
            for v in cands {
                let d = img.dev.snapshot();
                {
                    let mut st = d.0.borrow_mut();
                    let mut b = st.get(blk);
                    for i in 0..w {
                        b[off + i] = (v >> (8 * i)) as u8;
                    }
                    st.put(blk, &b);
                }
                emit(format!("{} = {}", name, v), d, v == cur, out, &mut n);
            }
        }
        for &(blk, off, w, name) in &benign_sites {
            for _ in 0..(if name == "serial" { 24 } else { 3 }) {
                let d = img.dev.snapshot();
                {
                    let mut st = d.0.borrow_mut();
                    let mut b = st.get(blk);
                    for i in 0..w {
                        // texts are printable, the serial number is any 32 bits
                        b[off + i] = if name == "serial" { rng.next() as u8 } else { 0x20 + (rng.below(0x5E) as u8) };
                    }
                    st.put(blk, &b);
                }
                emit(format!("benign: {} rewritten", name), d, true, out, &mut n);
            }
        }
        // random mutations of the three sectors, fully random sectors
        for round in 0..(if quick { 150 } else { 4000 }) {
            let d = img.dev.snapshot();
            let which = [0u32, lba, if infob != 0 { infob } else { lba }][rng.below(3) as usize];
            let desc;
            {
                let mut st = d.0.borrow_mut();
                let mut b = st.get(which);
                if round % 5 == 4 {
                    for x in b.iter_mut() {
                        *x = rng.next() as u8;
                    }
                    if round % 2 == 0 {
                        b[510] = 0x55;
                        b[511] = 0xAA;
                    }
                    desc = format!("random sector at block {}", which);
                } else {
                    let k = 1 + rng.below(6);
                    let mut places = Vec::new();
                    for _ in 0..k {
                        let o = if rng.chance(2, 3) { rng.below(64) as usize } else { rng.below(512) as usize };
                        b[o] = rng.next() as u8;
                        places.push(o);
                    }
                    desc = format!("random bytes {:?} of block {}", places, which);
                }
                st.put(which, &b);
            }
            emit(desc, d, false, out, &mut n);
        }
        // the other slots of the table describe partitions anywhere - next to this one, overlapping it, at and past the
        // end of the 32-bit block range: opening this slot must not trip over them
        {
            let plen = {
                let st = img.dev.0.borrow();
                let m = st.get(0);
                u32::from_le_bytes([m[p + 12], m[p + 13], m[p + 14], m[p + 15]])
            };
            let pend = lba.wrapping_add(plen);
            let combos: Vec<(u32, u32)> = vec![
                (0x8000_0000, 0x8000_0000), (0xFFFF_FFFF, 1), (0xFFFF_FFFF, 0xFFFF_FFFF), (1, 0xFFFF_FFFF), (0xFFFF_FFFE, 1), (0x7FFF_FFFF, 0x8000_0001),
                (pend, 100), (pend, 0xFFFF_FFFF), (pend.wrapping_add(1000), 0x10_0000), (0, lba), (lba, plen), (pend.wrapping_sub(1), 1), (0, 0xFFFF_FFFF), (lba.wrapping_add(1), 1),
            ];
            for o in (0..4).filter(|o| *o != slot) {
                let q = 446 + o * 16;
                for &ty in &[0x0Cu8, 0x83, 0x00] {
                    for &(st0, ln) in &combos {
                        let d = img.dev.snapshot();
                        {
                            let mut st = d.0.borrow_mut();
                            let mut m = st.get(0);
                            m[q + 4] = ty;
                            m[q + 8..q + 12].copy_from_slice(&st0.to_le_bytes());
                            m[q + 12..q + 16].copy_from_slice(&ln.to_le_bytes());
                            st.put(0, &m);
                        }
                        emit(format!("slot {} of the table: type {} start {} length {}", o, ty, st0, ln), d, true, out, &mut n);
                    }
                }
            }
            // and all three others at once
            for &(st0, ln) in &combos {
                let d = img.dev.snapshot();
                {
                    let mut st = d.0.borrow_mut();
                    let mut m = st.get(0);
                    for o in (0..4).filter(|o| *o != slot) {
                        let q = 446 + o * 16;
                        m[q + 4] = 0x06;
                        m[q + 8..q + 12].copy_from_slice(&st0.to_le_bytes());
                        m[q + 12..q + 16].copy_from_slice(&ln.to_le_bytes());
                    }
                    st.put(0, &m);
                }
                emit(format!("every other slot of the table: type 6 start {} length {}", st0, ln), d, true, out, &mut n);
            }
        }
        // the table changes while one manager lives (the card is re-partitioned through VolumeManager::device, or its
        // entry moves to another slot): the second open sees the medium as it is then
        {
            let entry: [u8; 16] = {
                let st = img.dev.0.borrow();
                let m = st.get(0);
                let mut e = [0u8; 16];
                e.copy_from_slice(&m[p..p + 16]);
                e
            };
            for s2 in (0..4).filter(|o| *o != slot) {
                let q = 446 + s2 * 16;
                // (a) the entry moves from its slot to slot s2
                let d = img.dev.snapshot();
                let mv = move |dv: &mut SparseDev| {
                    let mut st = dv.0.borrow_mut();
                    let mut m = st.get(0);
                    m[q..q + 16].copy_from_slice(&entry);
                    for x in m[p..p + 16].iter_mut() {
                        *x = 0;
                    }
                    st.put(0, &m);
                };
                let (k, msg, names, post) = relisting(d.clone(), slot, &mv, s2);
                let f = fields(&d, s2);
                let j = json!({"ev": "Mount", "mut": format!("entry moved from slot {} to slot {} under a live manager", slot, s2), "f": f, "r": k, "msg": msg,
                    "same": names == base_names, "post": post, "benign": true, "geo": geo, "base": false});
                serde_json::to_writer(&mut *out, &j).unwrap();
                out.write_all(b"\n").unwrap();
                n += 1;
            }
            // (b) the slot first holds an unsupported type / nothing, then the real entry
            for &ty0 in &[0x83u8, 0x00, 0x07] {
                let d = img.dev.snapshot();
                {
                    let mut st = d.0.borrow_mut();
                    let mut m = st.get(0);
                    m[p + 4] = ty0;
                    st.put(0, &m);
                }
                let fix = move |dv: &mut SparseDev| {
                    let mut st = dv.0.borrow_mut();
                    let mut m = st.get(0);
                    m[p..p + 16].copy_from_slice(&entry);
                    st.put(0, &m);
                };
                let (k, msg, names, post) = relisting(d.clone(), slot, &fix, slot);
                let f = fields(&d, slot);
                let j = json!({"ev": "Mount", "mut": format!("slot {} had type {} at the first open, the real entry at the second (same manager)", slot, ty0), "f": f, "r": k, "msg": msg,
                    "same": names == base_names, "post": post, "benign": true, "geo": geo, "base": false});
                serde_json::to_writer(&mut *out, &j).unwrap();
                out.write_all(b"\n").unwrap();
                n += 1;
            }
        }
        // the boot-code area of the master boot record holds what looks like a boot sector of its own (a card that was formatted
        // whole before it was partitioned: partitioning tools keep the first 440 bytes): the table decides all the same
        for which in 0..2 {
            let d = img.dev.snapshot();
            {
                let mut st = d.0.borrow_mut();
                let bs = st.get(lba);
                let mut m = st.get(0);
                m[..440].copy_from_slice(&bs[..440]);
                if which == 1 {
                    m[0] = 0xE9; // the other jump form
                    m[2] = 0x00;
                }
                st.put(0, &m);
            }
            emit(format!("the boot-code area of block 0 holds a copy of the volume boot sector's first 440 bytes (jump form {})", which), d, true, out, &mut n);
        }
        // the partition at the very end of the 32-bit block range, with a valid boot sector there
        for &far in &[0xFFFF_FFFFu32, 0xFFFF_FFFE, 0xFFFF_FF00, 0x8000_0000] {
            let d = img.dev.snapshot();
            {
                let mut st = d.0.borrow_mut();
                let bs = st.get(lba);
                st.put(far, &bs);
                if infob != 0 {
                    let inf = st.get(infob);
                    st.put(far.wrapping_add(infob - lba), &inf);
                }
                let mut m = st.get(0);
                m[p + 8..p + 12].copy_from_slice(&far.to_le_bytes());
                st.put(0, &m);
            }
            emit(format!("partition moved to block {} (boot sector copied there)", far), d, false, out, &mut n);
        }
    }
    json!({"vectors": n})
}
