//! Dumb projection of raw blocks to structure (no interpretation): FAT entries of the window,
//! 32-byte slots, data units, info-sector fields. All meaning is computed in TLA+ (FatDisk).

use crate::dev::{poison_block, poison_slot, Blk, DevState};
use crate::mkfs::Geo;
use crate::vals::{fat_to_clock, hex, Vals};
use serde_json::{json, Value as J};
use std::collections::BTreeSet;

pub fn fat_raw(st: &DevState, g: &Geo, copy: u32, c: u32) -> u32 {
    let (sec, off) = g.fat_entry_pos(c);
    let base = if copy == 1 { g.fat_start } else { g.fat2_start };
    let b = st.get(base + sec);
    if g.fat32 {
        u32::from_le_bytes([b[off], b[off + 1], b[off + 2], b[off + 3]])
    } else {
        u16::from_le_bytes([b[off], b[off + 1]]) as u32
    }
}

fn fat_ent_json(g: &Geo, c: u32, raw: u32) -> J {
    if g.fat32 {
        json!({"c": c, "v": raw & 0x0FFF_FFFF, "hi": raw >> 28})
    } else {
        json!({"c": c, "v": raw, "hi": 0})
    }
}

/// tracked entries (window + slack + reserved 0,1) that live in FAT sector `sec`
pub fn tracked_in_sector(g: &Geo, sec: u32) -> Vec<u32> {
    let lo = sec * g.eps;
    let hi = lo + g.eps;
    let mut v: Vec<u32> = Vec::new();
    for &c in g.window.iter().chain(g.slack.iter()) {
        if c >= lo && c < hi {
            v.push(c);
        }
    }
    if sec == 0 {
        v.push(0);
        v.push(1);
    }
    v.sort();
    v
}

/// Projection of one FAT sector: values of tracked entries + whether every other entry is ballast.
pub fn fat_sector_proj(g: &Geo, sec: u32, data: &Blk) -> (Vec<J>, bool) {
    let tracked = tracked_in_sector(g, sec);
    let mut ents = Vec::new();
    let mut restok = true;
    for i in 0..g.eps {
        let c = sec * g.eps + i;
        let raw = if g.fat32 {
            let o = (i * 4) as usize;
            u32::from_le_bytes([data[o], data[o + 1], data[o + 2], data[o + 3]])
        } else {
            let o = (i * 2) as usize;
            u16::from_le_bytes([data[o], data[o + 1]]) as u32
        };
        if tracked.binary_search(&c).is_ok() {
            ents.push(fat_ent_json(g, c, raw));
        } else {
            let bad = if g.fat32 { 0x0FFF_FFF7 } else { 0xFFF7 };
            if raw != bad {
                restok = false;
            }
        }
    }
    (ents, restok)
}

pub fn slot_kind(s: &[u8]) -> &'static str {
    if s[0] == 0 {
        "end"
    } else if s[0] == 0xE5 {
        "del"
    } else if s[11] & 0x0F == 0x0F {
        "lfn"
    } else if s[11] & 0x08 != 0 {
        "label"
    } else if s[11] & 0x10 != 0 {
        "dir"
    } else {
        "file"
    }
}

fn u16at(s: &[u8], o: usize) -> u16 {
    u16::from_le_bytes([s[o], s[o + 1]])
}

pub fn slot_cluster(g: &Geo, s: &[u8]) -> u32 {
    let lo = u16at(s, 26) as u32;
    if g.fat32 {
        ((u16at(s, 20) as u32) << 16) | lo
    } else {
        lo
    }
}

pub fn slot_proj(g: &Geo, vals: &Vals, blk: u32, i: usize, s: &[u8]) -> J {
    let kind = slot_kind(s);
    let size = u32::from_le_bytes([s[28], s[29], s[30], s[31]]);
    let su: i64 = match vals.b2u(size as u64) {
        Some(u) if u < (1 << 30) => u as i64,
        _ => -1,
    };
    let cl = slot_cluster(g, s);
    let c: i64 = if cl < (1 << 31) { cl as i64 } else { -1 };
    let (cd, ct, wd, wt) = (u16at(s, 16), u16at(s, 14), u16at(s, 24), u16at(s, 22));
    let is_poison = s == &poison_slot(blk, i)[..];
    let lfn_u: Vec<u16> = if kind == "lfn" {
        [1usize, 3, 5, 7, 9, 14, 16, 18, 20, 22, 24, 28, 30].iter().map(|&p| u16at(s, p)).collect()
    } else {
        Vec::new()
    };
    let mut n11 = [0u8; 11];
    n11.copy_from_slice(&s[0..11]);
    let ck = crate::mkfs::lfn_csum(&n11);
    // the name the slot stands for: a stored first byte 0x05 means the character 0xE5 (FAT specification, DIR_Name[0])
    let mut shown = n11;
    if shown[0] == 0x05 {
        shown[0] = 0xE5;
    }
    json!({
        "k": kind, "n": hex(&shown), "a": s[11], "c": c, "s": su,
        "zh": size >> 16, "zl": size & 0xFFFF,
        "cd": cd, "ct": ct, "wd": wd, "wt": wt,
        "cc": fat_to_clock(cd, ct), "wc": fat_to_clock(wd, wt),
        "raw": hex(s), "p": is_poison,
        "q": s[0], "cs": s[13], "u": lfn_u,
        "ck": ck,
    })
}

pub fn block_slots(g: &Geo, vals: &Vals, blk: u32, data: &Blk) -> Vec<J> {
    let mut v: Vec<J> = (0..16).map(|i| slot_proj(g, vals, blk, i, &data[i * 32..i * 32 + 32])).collect();
    // trim trailing all-zero slots
    while let Some(last) = v.last() {
        let i = v.len() - 1;
        if data[i * 32..i * 32 + 32].iter().all(|&b| b == 0) {
            let _ = last;
            v.pop();
        } else {
            break;
        }
    }
    v
}

pub fn block_units(vals: &Vals, blk: u32, data: &Blk) -> Vec<i64> {
    let pb = poison_block(blk);
    (0..vals.upb())
        .map(|j| {
            let (s, e) = vals.unit_range(j);
            if data[s..e] == pb[s..e] {
                -2
            } else {
                vals.decode(j, &data[s..e])
            }
        })
        .collect()
}

fn info_field(x: u32) -> i64 {
    if x == 0xFFFF_FFFF {
        -1
    } else if x >= (1 << 31) {
        -2
    } else {
        x as i64
    }
}

pub fn info_proj(data: &Blk) -> J {
    let w = |o: usize| u32::from_le_bytes([data[o], data[o + 1], data[o + 2], data[o + 3]]);
    let ok = w(0) == 0x4161_5252 && w(484) == 0x6141_7272 && w(508) == 0xAA55_0000;
    json!({"ok": ok, "f": info_field(w(488)), "n": info_field(w(492))})
}

/// Blocks (absolute) of window clusters that currently lie on a directory chain reachable from
/// the root through live sub-directory slots. Decoding hint only.
pub fn dir_blocks(st: &DevState, g: &Geo) -> BTreeSet<u32> {
    let mut out = BTreeSet::new();
    let mut seen: BTreeSet<u32> = BTreeSet::new();
    let mut work: Vec<u32> = Vec::new(); // start clusters of directories
    let scan = |st: &DevState, b: u32, work: &mut Vec<u32>| -> bool {
        // returns false when the end marker was met
        let d = st.get(b);
        for i in 0..16 {
            let s = &d[i * 32..i * 32 + 32];
            match slot_kind(s) {
                "end" => return false,
                "dir" => {
                    if &s[0..11] != b".          " && &s[0..11] != b"..         " {
                        let c = slot_cluster(g, s);
                        if g.in_window(c) {
                            work.push(c);
                        }
                    }
                }
                _ => {}
            }
        }
        true
    };
    if g.fat32 {
        work.push(g.root_clus);
    } else {
        for b in 0..g.root_blocks {
            if !scan(st, g.root_start + b, &mut work) {
                break;
            }
        }
    }
    while let Some(start) = work.pop() {
        let mut c = start;
        let mut going = true;
        loop {
            if !g.in_window(c) || !seen.insert(c) {
                break;
            }
            for bi in 0..g.bpc {
                let b = g.cluster_block(c) + bi;
                out.insert(b);
                if going && !scan(st, b, &mut work) {
                    going = false;
                }
            }
            let nxt = fat_raw(st, g, 1, c) & 0x0FFF_FFFF;
            if nxt >= 2 && nxt < g.count + 2 {
                c = nxt;
            } else {
                break;
            }
        }
    }
    out
}

/// tracked data-area / root blocks of a volume
pub fn tracked_blocks(g: &Geo) -> Vec<u32> {
    let mut v = Vec::new();
    for b in 0..g.root_blocks {
        v.push(g.root_start + b);
    }
    for &c in &g.window {
        for bi in 0..g.bpc {
            v.push(g.cluster_block(c) + bi);
        }
    }
    v
}

pub fn block_proj(g: &Geo, vals: &Vals, b: u32, data: &Blk, as_slots: bool) -> J {
    if as_slots {
        // units are always given: file data must be readable whatever else points at the block
        json!({"b": b, "w": "s", "s": block_slots(g, vals, b, data), "u": block_units(vals, b, data)})
    } else {
        json!({"b": b, "w": "u", "s": [], "u": block_units(vals, b, data)})
    }
}

/// hash of everything on the device outside the tracked parts of the volumes: used to detect
/// stray writes cheaply (the per-write region check is the primary mechanism)
pub fn full_projection(st: &DevState, g: &Geo, vals: &Vals) -> J {
    let dirs = dir_blocks(st, g);
    let mut fat1 = Vec::new();
    let mut fat2 = Vec::new();
    let mut restok = true;
    let mut secs: BTreeSet<u32> = BTreeSet::new();
    for &c in g.window.iter().chain(g.slack.iter()) {
        secs.insert(g.fat_entry_pos(c).0);
    }
    secs.insert(0);
    for &s in &secs {
        let (e, ok) = fat_sector_proj(g, s, &st.get(g.fat_start + s));
        fat1.extend(e);
        restok &= ok;
        if g.fat2_start != 0 {
            let (e2, ok2) = fat_sector_proj(g, s, &st.get(g.fat2_start + s));
            fat2.extend(e2);
            restok &= ok2;
        }
    }
    let mut blks = Vec::new();
    for b in tracked_blocks(g) {
        let is_root = g.root_blocks != 0 && b >= g.root_start && b < g.root_start + g.root_blocks;
        blks.push(block_proj(g, vals, b, &st.get(b), is_root || dirs.contains(&b)));
    }
    let info = if g.info_blk != 0 { info_proj(&st.get(g.info_blk)) } else { json!({"ok": true, "f": -1, "n": -1}) };
    json!({"g": g.to_json(), "fat1": fat1, "fat2": fat2, "restok": restok, "blks": blks, "info": info})
}
