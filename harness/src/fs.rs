//! Scenario executor for the file-system side: runs a history on the real VolumeManager over the
//! sparse device and records the NDJSON trace (Reset / Call / W / Fail / CrashMount / Ret / Remount).

use crate::dev::{DevCall, DevState, SparseDev};
use crate::mkfs::{self, Geo, Image};
use crate::reader::{self, block_proj, dir_blocks, fat_sector_proj, info_proj};
use crate::vals::{calendar_to_fat, clock_to_calendar, fat_to_clock, hex, Rng, Vals};
use embedded_io::{Read as EioRead, Seek as EioSeek, SeekFrom, Write as EioWrite};
use embedded_sdmmc::{
    DirEntry, Error, LfnBuffer, Mode, RawDirectory, RawFile, RawVolume, ShortFileName, TimeSource,
    Timestamp, VolumeIdx, VolumeManager,
};
use serde_json::{json, Value as J};
use std::cell::Cell;
use std::collections::{BTreeSet, HashMap};
use std::panic::{catch_unwind, AssertUnwindSafe};
use std::rc::Rc;

thread_local! { static EXT_RES: Cell<bool> = Cell::new(false); }
#[derive(Clone)]
pub struct Clock(pub Rc<Cell<u32>>);
impl TimeSource for Clock {
    fn get_timestamp(&self) -> Timestamp {
        let (y, mo, d, h, mi, s) = clock_to_calendar(self.0.get());
        Timestamp {
            year_since_1970: (y - 1970) as u8,
            zero_indexed_month: mo - 1,
            zero_indexed_day: d - 1,
            hours: h,
            minutes: mi,
            seconds: s,
        }
    }
}

pub fn hnum<T: std::fmt::Debug>(x: &T) -> u32 {
    let s = format!("{:?}", x);
    let i = s.find("0x").expect("handle debug format");
    let t: String = s[i + 2..].chars().take_while(|c| c.is_ascii_hexdigit()).collect();
    u32::from_str_radix(&t, 16).unwrap()
}

pub fn cluster_num(c: &embedded_sdmmc::ClusterId) -> i64 {
    let s = format!("{:?}", c);
    let inner = s.trim_start_matches("ClusterId(").trim_end_matches(')').trim();
    match inner {
        "ROOT" => -4,
        "EMPTY" => 0,
        "EOF" => -1,
        "BAD" => -9,
        "INVALID" => -10,
        x => {
            let v = u32::from_str_radix(x, 16).unwrap_or(u32::MAX);
            if v < (1 << 31) {
                v as i64
            } else {
                -1
            }
        }
    }
}

pub fn sfn_bytes(n: &ShortFileName) -> [u8; 11] {
    assert!(std::mem::size_of::<ShortFileName>() == 11);
    unsafe { std::mem::transmute_copy::<ShortFileName, [u8; 11]>(n) }
}

pub fn sfn_from_bytes(b: [u8; 11]) -> ShortFileName {
    assert!(std::mem::size_of::<ShortFileName>() == 11);
    unsafe { std::mem::transmute_copy::<[u8; 11], ShortFileName>(&b) }
}

pub fn ts_fat(t: &Timestamp) -> (i64, i64) {
    // independent encoder; years before 1980 are not representable
    let y = t.year_since_1970 as u16 + 1970;
    if y < 1980 || y > 2107 {
        return (-1, -1);
    }
    let (d, tm) = calendar_to_fat(y, t.zero_indexed_month + 1, t.zero_indexed_day + 1, t.hours, t.minutes, t.seconds);
    (d as i64, tm as i64)
}

pub fn de_json(vals: &Vals, de: &DirEntry) -> J {
    let a = (de.attributes.is_read_only() as u8)
        | (de.attributes.is_hidden() as u8) << 1
        | (de.attributes.is_system() as u8) << 2
        | (de.attributes.is_volume() as u8) << 3
        | (de.attributes.is_directory() as u8) << 4
        | (de.attributes.is_archive() as u8) << 5;
    let (cd, ct) = ts_fat(&de.ctime);
    let (wd, wt) = ts_fat(&de.mtime);
    let su: i64 = match vals.b2u(de.size as u64) {
        Some(u) if u < (1 << 30) => u as i64,
        _ => -1,
    };
    json!({
        "n": hex(&sfn_bytes(&de.name)), "a": a, "c": cluster_num(&de.cluster), "s": su,
        "zh": de.size >> 16, "zl": de.size & 0xFFFF,
        "cd": cd, "ct": ct, "wd": wd, "wt": wt,
        "cc": if cd >= 0 { fat_to_clock(cd as u16, ct as u16) } else { -1 },
        "wc": if wd >= 0 { fat_to_clock(wd as u16, wt as u16) } else { -1 },
        "eb": de.entry_block.0, "eo": de.entry_offset,
    })
}

pub fn err_name<E: std::fmt::Debug>(e: &Error<E>) -> String {
    let s = format!("{:?}", e);
    s.split(|c| c == '(' || c == ' ').next().unwrap().to_string()
}

/// Independent 8.3 encoder (from the FAT specification); None = invalid name.
/// Implements exactly the rules DESIGN.md fixes for C18; the TLA+ module Sfn is the reference.
pub fn sfn_encode(name: &str) -> Option<[u8; 11]> {
    if name == ".." {
        return Some(*b"..         ");
    }
    if name.is_empty() || name == "." {
        return Some(*b".          ");
    }
    let cs: Vec<char> = name.chars().collect();
    let mut out = [b' '; 11];
    let dot = cs.iter().position(|&c| c == '.');
    let (base, ext): (&[char], &[char]) = match dot {
        Some(i) => (&cs[..i], &cs[i + 1..]),
        None => (&cs[..], &[]),
    };
    if base.is_empty() || base.len() > 8 || ext.len() > 3 || ext.contains(&'.') {
        return None;
    }
    let bad = |c: char| -> bool {
        (c as u32) < 0x20 || (c as u32) > 0xFF || "\"*+,/:;<=>?[\\]| ".contains(c)
    };
    for (i, &c) in base.iter().enumerate() {
        if bad(c) {
            return None;
        }
        out[i] = c.to_ascii_uppercase() as u32 as u8;
    }
    for (i, &c) in ext.iter().enumerate() {
        if bad(c) {
            return None;
        }
        out[8 + i] = c.to_ascii_uppercase() as u32 as u8;
    }
    Some(out)
}

fn res_ok(v: J) -> J {
    json!({"k": "ok", "e": "", "v": v})
}
fn res_err(e: String) -> J {
    json!({"k": "err", "e": e, "v": {}})
}

/// Streaming output: events are written as soon as an API call has returned; before every call
/// the op about to run is recorded in a side file so that a hang or a dying process can be
/// attributed to that call by the orchestrator (interpretation decision 14).
pub struct Sink {
    pub out: std::io::BufWriter<std::fs::File>,
    pub progress_path: String,
    pub hist_index: usize,
    pub op_started: std::sync::Arc<std::sync::atomic::AtomicU64>,
}
impl Sink {
    pub fn flush_events(&mut self, events: &mut Vec<J>) {
        use std::io::Write;
        for e in events.drain(..) {
            serde_json::to_writer(&mut self.out, &e).unwrap();
            self.out.write_all(b"\n").unwrap();
        }
        self.out.flush().unwrap();
    }
    pub fn begin_op(&mut self, hid: &J, op: &J, clk: u32) {
        let now = std::time::SystemTime::now().duration_since(std::time::UNIX_EPOCH).unwrap().as_secs();
        self.op_started.store(now, std::sync::atomic::Ordering::SeqCst);
        let _ = std::fs::write(&self.progress_path, serde_json::to_vec(&json!({"hist_index": self.hist_index, "hid": hid, "op": op, "clk": clk})).unwrap());
    }
    pub fn end_op(&mut self) {
        self.op_started.store(0, std::sync::atomic::Ordering::SeqCst);
    }
}

pub struct RunOpts {
    /// emit a CrashMount (library remount of the write-log prefix) after this fraction of writes (per mille)
    pub crash_permille: u64,
    pub seed: u64,
    /// emit a library Remount after every flush/close and at the end
    pub remount: bool,
}

pub struct Stats {
    pub api_calls: u64,
    pub dev_writes: u64,
    pub dev_reads: u64,
    pub crash_mounts: u64,
    pub panics: u64,
}

/// Fresh mount of a snapshot by the library itself: listing of every directory and content of every file.
pub fn lib_view(snap: SparseDev, geos: &[Geo], vals: &Vals) -> J {
    let clock = Clock(Rc::new(Cell::new(0)));
    let vm: VolumeManager<SparseDev, Clock, 8, 8, 4> = VolumeManager::new_with_limits(snap, clock, 0x7000_0000);
    let mut vols = Vec::new();
    for g in geos {
        let r = catch_unwind(AssertUnwindSafe(|| -> J {
            let v = match vm.open_raw_volume(VolumeIdx(g.slot)) {
                Ok(v) => v,
                Err(e) => return json!({"vol": g.slot, "mount": format!("err:{}", err_name(&e)), "dirs": []}),
            };
            let root = match vm.open_root_dir(v) {
                Ok(d) => d,
                Err(e) => return json!({"vol": g.slot, "mount": format!("err:{}", err_name(&e)), "dirs": []}),
            };
            let mut dirs_out = Vec::new();
            let mut seen: BTreeSet<i64> = BTreeSet::new();
            // (dir handle, id, depth)
            let mut work: Vec<(RawDirectory, i64, u32)> = vec![(root, 0, 0)];
            seen.insert(0);
            while let Some((d, id, depth)) = work.pop() {
                let mut ents: Vec<DirEntry> = Vec::new();
                let it = vm.iterate_dir(d, |de| ents.push(de.clone()));
                let mut ej = Vec::new();
                for de in &ents {
                    let mut j = de_json(vals, de);
                    let nb = sfn_bytes(&de.name);
                    let is_dot = &nb == b".          " || &nb == b"..         ";
                    if de.attributes.is_directory() && !de.attributes.is_volume() && !is_dot {
                        let c = cluster_num(&de.cluster);
                        if depth < 5 && seen.insert(c) {
                            match vm.open_dir(d, &de.name) {
                                Ok(sd) => work.push((sd, c, depth + 1)),
                                Err(e) => {
                                    j["rd"] = json!(format!("err:{}", err_name(&e)));
                                }
                            }
                        }
                    } else if !de.attributes.is_directory() && !de.attributes.is_volume() {
                        if de.size > 4 * 1024 * 1024 {
                            j["rd"] = json!("skip");
                        } else {
                            match vm.open_file_in_dir(d, &de.name, Mode::ReadOnly) {
                                Ok(f) => {
                                    let mut buf = vec![0u8; de.size as usize];
                                    let mut got = 0usize;
                                    let mut rerr = None;
                                    while got < buf.len() {
                                        match vm.read(f, &mut buf[got..]) {
                                            Ok(0) => break,
                                            Ok(k) => got += k,
                                            Err(e) => {
                                                rerr = Some(err_name(&e));
                                                break;
                                            }
                                        }
                                    }
                                    let _ = vm.close_file(f);
                                    match rerr {
                                        Some(e) => j["rd"] = json!(format!("err:{}", e)),
                                        None => {
                                            j["rd"] = json!("ok");
                                            j["data"] = json!(decode_bytes(vals, 0, &buf[..got]));
                                        }
                                    }
                                }
                                Err(e) => {
                                    j["rd"] = json!(format!("err:{}", err_name(&e)));
                                }
                            }
                        }
                    }
                    if j.get("rd").is_none() {
                        j["rd"] = json!("na");
                    }
                    if j.get("data").is_none() {
                        j["data"] = json!([]);
                    }
                    ej.push(j);
                }
                let _ = vm.close_dir(d);
                dirs_out.push(json!({"id": id, "it": if it.is_ok() { "ok".to_string() } else { format!("err:{}", err_name(&it.unwrap_err())) }, "ents": ej}));
            }
            let _ = vm.close_volume(v);
            json!({"vol": g.slot, "mount": "ok", "dirs": dirs_out})
        }));
        match r {
            Ok(j) => vols.push(j),
            Err(p) => vols.push(json!({"vol": g.slot, "mount": format!("panic:{}", panic_msg(&p)), "dirs": []})),
        }
    }
    json!(vols)
}

pub fn panic_msg(p: &Box<dyn std::any::Any + Send>) -> String {
    if let Some(s) = p.downcast_ref::<&str>() {
        s.to_string()
    } else if let Some(s) = p.downcast_ref::<String>() {
        s.clone()
    } else {
        "?".to_string()
    }
}

/// decode a byte string that starts at file unit index `u0` into unit values; a trailing partial unit is -1
pub fn decode_bytes(vals: &Vals, u0: u64, bytes: &[u8]) -> Vec<i64> {
    let mut out = Vec::new();
    let mut u = u0;
    let base = vals.u2b(u0);
    loop {
        let s = (vals.u2b(u) - base) as usize;
        let e = (vals.u2b(u + 1) - base) as usize;
        if s >= bytes.len() {
            break;
        }
        if e > bytes.len() {
            out.push(-1);
            break;
        }
        let j = (u % vals.upb() as u64) as usize;
        out.push(vals.decode(j, &bytes[s..e]));
        u += 1;
    }
    out
}

struct Shadow {
    st: DevState,
}

/// byte comparison of the FAT regions (every explicitly stored sector, both directions)
fn fat_copies_equal(st: &DevState, geos: &[Geo]) -> bool {
    for g in geos {
        if g.fat2_start == 0 {
            continue;
        }
        for s in 0..g.fat_len {
            let (a, b) = (g.fat_start + s, g.fat2_start + s);
            if (st.blocks.contains_key(&a) || st.blocks.contains_key(&b)) && st.get(a) != st.get(b) {
                return false;
            }
        }
    }
    true
}

/// Convert the device-call log of one API call into W / Fail events, advancing the shadow medium.
fn drain_dev_log(
    dev: &SparseDev, shadow: &mut Shadow, geos: &[Geo], vals: &Vals, events: &mut Vec<J>, stats: &mut Stats,
    opts: &RunOpts, rng: &mut Rng,
) {
    let log: Vec<DevCall> = std::mem::take(&mut dev.0.borrow_mut().log);
    for call in log {
        match call {
            DevCall::Read { n, blk, failed } => {
                stats.dev_reads += 1;
                if failed {
                    events.push(json!({"ev": "Fail", "n": n, "kind": "r", "blk": blk}));
                }
            }
            DevCall::Write { n, blk, failed, data, prev: _ } => {
                if failed {
                    events.push(json!({"ev": "Fail", "n": n, "kind": "w", "blk": blk}));
                    continue;
                }
                stats.dev_writes += 1;
                let prev = shadow.st.get(blk);
                // which volume
                let mut vi: i64 = -1;
                let mut reg = if blk == 0 { "mbr" } else { "out" };
                for (i, g) in geos.iter().enumerate() {
                    let r = g.region(blk);
                    if r != "out" {
                        vi = i as i64;
                        reg = r;
                        break;
                    }
                }
                let mut ev = json!({"ev": "W", "n": n, "vol": vi + 1, "blk": blk, "reg": reg,
                    "fat": [], "restok": true, "up": [], "info": {"ok": true, "f": -1, "n": -1},
                    "chg": [], "chgx": false, "trk": true, "same": prev == *data,
                    "z": data.iter().all(|&x| x == 0), "dot": data[0] == 0x2E && data[1..11].iter().all(|&x| x == 0x20)});
                if vi >= 0 {
                    let g = &geos[vi as usize];
                    match reg {
                        "fat1" | "fat2" => {
                            let base = if reg == "fat1" { g.fat_start } else { g.fat2_start };
                            let sec = blk - base;
                            let (ents, ok) = fat_sector_proj(g, sec, &data);
                            let tracked = reader::tracked_in_sector(g, sec);
                            let eb = if g.fat32 { 4 } else { 2 };
                            let mut chg = Vec::new();
                            let mut chgx = false;
                            for i in 0..g.eps as usize {
                                if prev[i * eb..i * eb + eb] != data[i * eb..i * eb + eb] {
                                    let c = sec * g.eps + i as u32;
                                    if tracked.binary_search(&c).is_ok() {
                                        chg.push(c);
                                    } else {
                                        chgx = true;
                                    }
                                }
                            }
                            ev["fat"] = json!(ents);
                            ev["restok"] = json!(ok);
                            ev["chg"] = json!(chg);
                            ev["chgx"] = json!(chgx);
                            if reg == "fat1" {
                                // a changed chain can make a block join or leave a directory: re-project those
                                let before = dir_blocks(&shadow.st, g);
                                shadow.st.put(blk, &data);
                                let after = dir_blocks(&shadow.st, g);
                                let up: Vec<J> = before.symmetric_difference(&after).map(|b| block_proj(g, vals, *b, &shadow.st.get(*b), after.contains(b))).collect();
                                ev["up"] = json!(up);
                            } else {
                                shadow.st.put(blk, &data);
                            }
                        }
                        "root" | "data" => {
                            let tracked = reg == "root" || g.block_cluster(blk).map(|c| g.in_window(c)).unwrap_or(false);
                            if !tracked {
                                ev["trk"] = json!(false);
                                shadow.st.put(blk, &data);
                            } else {
                                let before = dir_blocks(&shadow.st, g);
                                shadow.st.put(blk, &data);
                                let after = dir_blocks(&shadow.st, g);
                                let is_root = reg == "root";
                                let as_slots = is_root || after.contains(&blk);
                                let mut up = vec![block_proj(g, vals, blk, &data, as_slots)];
                                for b in before.symmetric_difference(&after) {
                                    if *b != blk {
                                        up.push(block_proj(g, vals, *b, &shadow.st.get(*b), after.contains(b)));
                                    }
                                }
                                let mut chg = Vec::new();
                                if as_slots {
                                    for i in 0..16 {
                                        if prev[i * 32..i * 32 + 32] != data[i * 32..i * 32 + 32] {
                                            chg.push(i as u32);
                                        }
                                    }
                                } else {
                                    for j in 0..vals.upb() {
                                        let (s, e) = vals.unit_range(j);
                                        if prev[s..e] != data[s..e] {
                                            chg.push(j as u32);
                                        }
                                    }
                                }
                                ev["up"] = json!(up);
                                ev["chg"] = json!(chg);
                            }
                        }
                        "info" => {
                            ev["info"] = info_proj(&data);
                            let mut chg = Vec::new();
                            if prev[488..492] != data[488..492] {
                                chg.push(1);
                            }
                            if prev[492..496] != data[492..496] {
                                chg.push(2);
                            }
                            let mut other = false;
                            for i in 0..512 {
                                if !(488..496).contains(&i) && prev[i] != data[i] {
                                    other = true;
                                }
                            }
                            ev["chg"] = json!(chg);
                            ev["chgx"] = json!(other);
                            shadow.st.put(blk, &data);
                        }
                        _ => {
                            shadow.st.put(blk, &data);
                        }
                    }
                } else {
                    shadow.st.put(blk, &data);
                }
                events.push(ev);
                if opts.crash_permille > 0 && rng.below(1000) < opts.crash_permille {
                    let snap = SparseDev(Rc::new(std::cell::RefCell::new(clone_state(&shadow.st))));
                    let lv = lib_view(snap, geos, vals);
                    stats.crash_mounts += 1;
                    events.push(json!({"ev": "CrashMount", "n": n, "vols": lv}));
                }
            }
        }
    }
}

fn clone_state(s: &DevState) -> DevState {
    DevState {
        blocks: s.blocks.clone(),
        rule: s.rule.clone(),
        num_blocks: s.num_blocks,
        calls: 0,
        fail_at: None,
        fail_from: None,
        fail_set: Vec::new(),
        log: Vec::new(),
        logging: false,
    }
}

#[derive(Clone, Copy)]
enum Var {
    Vol(RawVolume),
    Dir(RawDirectory),
    File(RawFile),
}

fn parse_mode(s: &str) -> Mode {
    match s {
        "ReadOnly" => Mode::ReadOnly,
        "Append" => Mode::ReadWriteAppend,
        "Truncate" => Mode::ReadWriteTruncate,
        "Create" => Mode::ReadWriteCreate,
        "CreateOrTruncate" => Mode::ReadWriteCreateOrTruncate,
        "CreateOrAppend" => Mode::ReadWriteCreateOrAppend,
        _ => panic!("bad mode {}", s),
    }
}

struct Ctx<'a, const D: usize, const F: usize, const V: usize> {
    vm: &'a VolumeManager<SparseDev, Clock, D, F, V>,
    vals: &'a mut Vals,
    vars: HashMap<String, Var>,
    /// files the harness believes open (for obs)
    open_files: Vec<(String, RawFile)>,
    id_offset: u32,
}

impl<'a, const D: usize, const F: usize, const V: usize> Ctx<'a, D, F, V> {
    fn rel(&self, h: u32) -> i64 {
        h.wrapping_sub(self.id_offset) as i64
    }
    fn vol(&self, name: &str) -> RawVolume {
        match self.vars.get(name) {
            Some(Var::Vol(v)) => *v,
            _ => panic!("scenario: no volume var {}", name),
        }
    }
    fn dir(&self, name: &str) -> RawDirectory {
        match self.vars.get(name) {
            Some(Var::Dir(v)) => *v,
            _ => panic!("scenario: no dir var {}", name),
        }
    }
    fn file(&self, name: &str) -> RawFile {
        match self.vars.get(name) {
            Some(Var::File(v)) => *v,
            _ => panic!("scenario: no file var {}", name),
        }
    }
    fn name_args(&self, op: &J) -> (String, J) {
        let nm = op["name"].as_str().unwrap().to_string();
        let enc = sfn_encode(&nm);
        let j = match enc {
            Some(b) => json!({"nm": hex(&b), "nmok": true}),
            None => json!({"nm": "", "nmok": false}),
        };
        (nm, j)
    }
    fn obs(&self) -> J {
        let mut v = Vec::new();
        for (_n, f) in &self.open_files {
            let len = self.vm.file_length(*f);
            let off = self.vm.file_offset(*f);
            let eof = self.vm.file_eof(*f);
            let lu = len.as_ref().ok().and_then(|&l| self.vals.b2u(l as u64)).map(|x| x as i64).unwrap_or(-1);
            let ou = off.as_ref().ok().and_then(|&l| self.vals.b2u(l as u64)).map(|x| x as i64).unwrap_or(-1);
            v.push(json!({"h": self.rel(hnum(f)), "len": lu, "off": ou,
                "eof": eof.as_ref().ok().copied().unwrap_or(false),
                "ok": len.is_ok() && off.is_ok() && eof.is_ok()}));
        }
        json!(v)
    }

    /// The re-entrancy probe: every result-returning method, called from inside a callback.
    fn reent_probe(&self, d: RawDirectory) -> Vec<J> {
        let vm = self.vm;
        let mut out = Vec::new();
        let mut rec = |name: &str, e: Option<String>| {
            out.push(json!({"op": name, "e": e.unwrap_or("Ok".to_string())}));
        };
        let anyvol = self.vars.values().find_map(|v| if let Var::Vol(x) = v { Some(*x) } else { None });
        let anyfile = self.vars.values().find_map(|v| if let Var::File(x) = v { Some(*x) } else { None });
        rec("open_raw_volume", vm.open_raw_volume(VolumeIdx(3)).err().map(|e| err_name(&e)));
        if let Some(v) = anyvol {
            rec("open_root_dir", vm.open_root_dir(v).err().map(|e| err_name(&e)));
            rec("close_volume", vm.close_volume(v).err().map(|e| err_name(&e)));
            rec("get_root_volume_label", vm.get_root_volume_label(v).err().map(|e| err_name(&e)));
        }
        rec("open_dir", vm.open_dir(d, ".").err().map(|e| err_name(&e)));
        rec("find_directory_entry", vm.find_directory_entry(d, "X").err().map(|e| err_name(&e)));
        rec("iterate_dir", vm.iterate_dir(d, |_| {}).err().map(|e| err_name(&e)));
        let mut st = [0u8; 32];
        let mut lb = LfnBuffer::new(&mut st);
        rec("iterate_dir_lfn", vm.iterate_dir_lfn(d, &mut lb, |_, _| {}).err().map(|e| err_name(&e)));
        rec("open_file_in_dir", vm.open_file_in_dir(d, "REENT.TMP", Mode::ReadWriteCreateOrTruncate).err().map(|e| err_name(&e)));
        rec("delete_file_in_dir", vm.delete_file_in_dir(d, "REENT.TMP").err().map(|e| err_name(&e)));
        rec("make_dir_in_dir", vm.make_dir_in_dir(d, "REENTD").err().map(|e| err_name(&e)));
        if let Some(f) = anyfile {
            let mut b = [0u8; 4];
            rec("read", vm.read(f, &mut b).err().map(|e| err_name(&e)));
            rec("write", vm.write(f, &b).err().map(|e| err_name(&e)));
            rec("flush_file", vm.flush_file(f).err().map(|e| err_name(&e)));
            rec("file_eof", vm.file_eof(f).err().map(|e| err_name(&e)));
            rec("file_seek_from_start", vm.file_seek_from_start(f, 0).err().map(|e| err_name(&e)));
            rec("file_seek_from_current", vm.file_seek_from_current(f, 0).err().map(|e| err_name(&e)));
            rec("file_seek_from_end", vm.file_seek_from_end(f, 0).err().map(|e| err_name(&e)));
            rec("file_length", vm.file_length(f).err().map(|e| err_name(&e)));
            rec("file_offset", vm.file_offset(f).err().map(|e| err_name(&e)));
            rec("close_file", vm.close_file(f).err().map(|e| err_name(&e)));
        }
        rec("close_dir", vm.close_dir(d).err().map(|e| err_name(&e)));
        out
    }

    /// Execute one scenario op. Returns (call args json, result json).
    fn exec(&mut self, op: &J) -> (J, J) {
        let vm = self.vm;
        let name = op["op"].as_str().unwrap();
        let api = op.get("api").and_then(|x| x.as_str()).unwrap_or("raw");
        match name {
            "open_volume" => {
                let idx = op["idx"].as_u64().unwrap() as usize;
                let args = json!({"idx": idx});
                match vm.open_raw_volume(VolumeIdx(idx)) {
                    Ok(v) => {
                        self.vars.insert(op["as"].as_str().unwrap().to_string(), Var::Vol(v));
                        (args, res_ok(json!({"h": self.rel(hnum(&v))})))
                    }
                    Err(e) => (args, res_err(err_name(&e))),
                }
            }
            "close_volume" => {
                let v = self.vol(op["v"].as_str().unwrap());
                let args = json!({"v": self.rel(hnum(&v))});
                let r = if api == "raii" { v.to_volume(vm).close() } else { vm.close_volume(v) };
                match r {
                    Ok(()) => (args, res_ok(json!({}))),
                    Err(e) => (args, res_err(err_name(&e))),
                }
            }
            "open_root" => {
                let v = self.vol(op["v"].as_str().unwrap());
                let args = json!({"v": self.rel(hnum(&v))});
                let r = if api == "raii" {
                    let vol = v.to_volume(vm);
                    let r = vol.open_root_dir().map(|d| d.to_raw_directory());
                    vol.to_raw_volume();
                    r
                } else {
                    vm.open_root_dir(v)
                };
                match r {
                    Ok(d) => {
                        self.vars.insert(op["as"].as_str().unwrap().to_string(), Var::Dir(d));
                        (args, res_ok(json!({"h": self.rel(hnum(&d))})))
                    }
                    Err(e) => (args, res_err(err_name(&e))),
                }
            }
            "open_dir" | "change_dir" => {
                let d = self.dir(op["d"].as_str().unwrap());
                let (nm, mut args) = self.name_args(op);
                args["d"] = json!(self.rel(hnum(&d)));
                if name == "change_dir" {
                    let mut dd = d.to_directory(vm);
                    let r = dd.change_dir(nm.as_str());
                    let nd = dd.to_raw_directory();
                    return match r {
                        Ok(()) => {
                            self.vars.insert(op["d"].as_str().unwrap().to_string(), Var::Dir(nd));
                            (args, res_ok(json!({"h": self.rel(hnum(&nd))})))
                        }
                        Err(e) => (args, res_err(err_name(&e))),
                    };
                }
                let r = if api == "raii" {
                    let dd = d.to_directory(vm);
                    let r = dd.open_dir(nm.as_str()).map(|x| x.to_raw_directory());
                    dd.to_raw_directory();
                    r
                } else {
                    vm.open_dir(d, nm.as_str())
                };
                match r {
                    Ok(nd) => {
                        self.vars.insert(op["as"].as_str().unwrap().to_string(), Var::Dir(nd));
                        (args, res_ok(json!({"h": self.rel(hnum(&nd))})))
                    }
                    Err(e) => (args, res_err(err_name(&e))),
                }
            }
            "close_dir" => {
                let d = self.dir(op["d"].as_str().unwrap());
                let args = json!({"d": self.rel(hnum(&d))});
                let r = if api == "raii" {
                    d.to_directory(vm).close()
                } else if api == "drop" {
                    drop(d.to_directory(vm));
                    return (args, json!({"k": "drop", "e": "", "v": {}}));
                } else {
                    vm.close_dir(d)
                };
                match r {
                    Ok(()) => (args, res_ok(json!({}))),
                    Err(e) => (args, res_err(err_name(&e))),
                }
            }
            "find" => {
                let d = self.dir(op["d"].as_str().unwrap());
                let (nm, mut args) = self.name_args(op);
                args["d"] = json!(self.rel(hnum(&d)));
                let r = if api == "raii" {
                    let dd = d.to_directory(vm);
                    let r = dd.find_directory_entry(nm.as_str());
                    dd.to_raw_directory();
                    r
                } else {
                    vm.find_directory_entry(d, nm.as_str())
                };
                match r {
                    Ok(de) => (args, res_ok(de_json(self.vals, &de))),
                    Err(e) => (args, res_err(err_name(&e))),
                }
            }
            "ext_rename" => {
                // the application edits the medium itself through `VolumeManager::device` (a documented way to reach the
                // device): the 11 name bytes of a closed file's entry are replaced in place.  What the library reports
                // afterwards has to be what the medium holds now (C06) - not what a cached block held before.
                let d = self.dir(op["d"].as_str().unwrap());
                let (nm, mut args) = self.name_args(op);
                args["d"] = json!(self.rel(hnum(&d)));
                let to = sfn_encode(op["to"].as_str().unwrap()).expect("scenario: ext_rename target must be 8.3");
                args["to"] = json!(hex(&to));
                match vm.find_directory_entry(d, nm.as_str()) {
                    Ok(de) => {
                        let blk = de.entry_block;
                        let off = de.entry_offset as usize;
                        let r = vm.device(|dev| {
                            let mut b = [embedded_sdmmc::Block::new()];
                            let r = embedded_sdmmc::BlockDevice::read(&*dev, &mut b, blk).and_then(|_| {
                                b[0].contents[off..off + 11].copy_from_slice(&to);
                                embedded_sdmmc::BlockDevice::write(&*dev, &b, blk)
                            });
                            EXT_RES.with(|c| c.set(r.is_ok()));
                            Clock(Rc::new(Cell::new(0)))
                        });
                        drop(r);
                        if EXT_RES.with(|c| c.get()) { (args, res_ok(json!({}))) } else { (args, res_err("DeviceError".to_string())) }
                    }
                    Err(e) => (args, res_err(err_name(&e))),
                }
            }
            "find_sfn" => {
                // lookup by the raw 11 bytes of a listed entry (no string parsing in between)
                let d = self.dir(op["d"].as_str().unwrap());
                let raw = crate::vals::unhex(op["sfn"].as_str().unwrap());
                let mut b11 = [0u8; 11];
                b11.copy_from_slice(&raw[..11]);
                let sfn = sfn_from_bytes(b11);
                let args = json!({"d": self.rel(hnum(&d)), "nm": op["sfn"], "nmok": true});
                match vm.find_directory_entry(d, &sfn) {
                    Ok(de) => (args, res_ok(de_json(self.vals, &de))),
                    Err(e) => (args, res_err(err_name(&e))),
                }
            }
            "iterate" => {
                let d = self.dir(op["d"].as_str().unwrap());
                let reent = op.get("reent").and_then(|x| x.as_bool()).unwrap_or(false);
                let args = json!({"d": self.rel(hnum(&d)), "reent": reent});
                let mut ents = Vec::new();
                let mut probe: Vec<J> = Vec::new();
                let mut first = true;
                let r = vm.iterate_dir(d, |de| {
                    ents.push(de_json(self.vals, de));
                    if reent && first {
                        first = false;
                        probe = self.reent_probe(d);
                    }
                });
                match r {
                    Ok(()) => (args, res_ok(json!({"ents": ents, "probe": probe}))),
                    Err(e) => (args, res_err(err_name(&e))),
                }
            }
            "iterate_lfn" => {
                let d = self.dir(op["d"].as_str().unwrap());
                let bufsz = op.get("buf").and_then(|x| x.as_u64()).unwrap_or(780) as usize;
                let reent = op.get("reent").and_then(|x| x.as_bool()).unwrap_or(false);
                let args = json!({"d": self.rel(hnum(&d)), "buf": bufsz, "reent": reent});
                let mut storage = vec![0u8; bufsz];
                let mut lb = LfnBuffer::new(&mut storage);
                if op.get("prepush").and_then(|x| x.as_bool()).unwrap_or(false) {
                    // the caller's buffer still holds part of a name from an earlier use: a listing starts afresh all the same
                    lb.push(&[0x58, 0x59, 0x5A, 0x51, 0x52, 0x53, 0x54, 0x55, 0x56, 0x57, 0x4B, 0x4C, 0x4D]);
                }
                let mut ents = Vec::new();
                let mut probe: Vec<J> = Vec::new();
                let mut first = true;
                let r = vm.iterate_dir_lfn(d, &mut lb, |de, lfn| {
                    let mut j = de_json(self.vals, de);
                    j["has"] = json!(lfn.is_some());
                    j["lfn"] = json!(lfn.map(|s| s.chars().map(|c| c as u32).collect::<Vec<u32>>()).unwrap_or_default());
                    ents.push(j);
                    if reent && first {
                        first = false;
                        probe = self.reent_probe(d);
                    }
                });
                match r {
                    Ok(()) => (args, res_ok(json!({"ents": ents, "probe": probe}))),
                    Err(e) => (args, res_err(err_name(&e))),
                }
            }
            "open_file" => {
                let d = self.dir(op["d"].as_str().unwrap());
                let (nm, mut args) = self.name_args(op);
                let mode = op["mode"].as_str().unwrap();
                args["d"] = json!(self.rel(hnum(&d)));
                args["mode"] = json!(mode);
                let r = if api == "raii" {
                    let dd = d.to_directory(vm);
                    let r = dd.open_file_in_dir(nm.as_str(), parse_mode(mode)).map(|f| f.to_raw_file());
                    dd.to_raw_directory();
                    r
                } else {
                    vm.open_file_in_dir(d, nm.as_str(), parse_mode(mode))
                };
                match r {
                    Ok(f) => {
                        let var = op["as"].as_str().unwrap().to_string();
                        self.vars.insert(var.clone(), Var::File(f));
                        self.open_files.push((var, f));
                        (args, res_ok(json!({"h": self.rel(hnum(&f))})))
                    }
                    Err(e) => (args, res_err(err_name(&e))),
                }
            }
            "read" => {
                let f = self.file(op["f"].as_str().unwrap());
                let n = op["n"].as_u64().unwrap();
                let args = json!({"f": self.rel(hnum(&f)), "n": n});
                let off = vm.file_offset(f).unwrap_or(0) as u64;
                let ou = self.vals.b2u(off).unwrap_or(off / 512 * self.vals.upb() as u64);
                let want = (self.vals.u2b(ou + n) - self.vals.u2b(ou)) as usize;
                let mut buf = vec![0xCCu8; want];
                let r = match api {
                    "raii" => {
                        let ff = f.to_file(vm);
                        let r = ff.read(&mut buf);
                        ff.to_raw_file();
                        r
                    }
                    "eio" => {
                        let mut ff = f.to_file(vm);
                        let r = EioRead::read(&mut ff, &mut buf);
                        ff.to_raw_file();
                        r
                    }
                    _ => vm.read(f, &mut buf),
                };
                match r {
                    Ok(k) => {
                        let v = decode_bytes(self.vals, ou, &buf[..k.min(want)]);
                        let aligned = self.vals.b2u(self.vals.u2b(ou) + k as u64).is_some() && k <= want;
                        let untouched = buf[k.min(want)..].iter().all(|&b| b == 0xCC);
                        (args, res_ok(json!({"cnt": if aligned { v.len() as i64 } else { -1 }, "vals": v, "bytes": k, "tailok": untouched})))
                    }
                    Err(e) => (args, res_err(err_name(&e))),
                }
            }
            "write" => {
                let f = self.file(op["f"].as_str().unwrap());
                let n = op["n"].as_u64().unwrap();
                let off = vm.file_offset(f).unwrap_or(0) as u64;
                let ou = self.vals.b2u(off).unwrap_or(off / 512 * self.vals.upb() as u64);
                let mut bytes = Vec::new();
                let mut vs = Vec::new();
                let zeros = op.get("zero").and_then(|x| x.as_bool()).unwrap_or(false);
                for i in 0..n {
                    let j = ((ou + i) % self.vals.upb() as u64) as usize;
                    // (zero: the caller writes zero bytes - value 0 of the model - which is what a blanked cache block holds too)
                    let (v, b) = if zeros { (0, vec![0u8; self.vals.unit_len(j)]) } else { self.vals.fresh(j) };
                    vs.push(v);
                    bytes.extend_from_slice(&b);
                }
                let args = json!({"f": self.rel(hnum(&f)), "vals": vs});
                let r = match api {
                    "raii" => {
                        let ff = f.to_file(vm);
                        let r = ff.write(&bytes);
                        ff.to_raw_file();
                        r
                    }
                    "eio" => {
                        let mut ff = f.to_file(vm);
                        let r = EioWrite::write(&mut ff, &bytes);
                        ff.to_raw_file();
                        match r {
                            // a short count is a success as far as the caller can tell (what was stored shows in the observers)
                            Ok(k) if k != bytes.len() => return (args, res_ok(json!({"short": k}))),
                            Ok(_) => Ok(()),
                            Err(e) => Err(e),
                        }
                    }
                    _ => vm.write(f, &bytes),
                };
                match r {
                    Ok(()) => (args, res_ok(json!({}))),
                    Err(e) => (args, res_err(err_name(&e))),
                }
            }
            "seek_start" | "seek_end" | "seek_cur" => {
                let f = self.file(op["f"].as_str().unwrap());
                let len = vm.file_length(f).unwrap_or(0) as u64;
                let off = vm.file_offset(f).unwrap_or(0) as u64;
                let lu = self.vals.b2u(len).unwrap_or(0) as i64;
                let ou = self.vals.b2u(off).unwrap_or(0) as i64;
                let u = op["u"].as_i64().unwrap();
                let args = json!({"f": self.rel(hnum(&f)), "u": u});
                let r: Result<(), Error<crate::dev::DevErr>> = match name {
                    "seek_start" => {
                        let b = self.vals.u2b(u as u64);
                        match api {
                            "eio" => {
                                let mut ff = f.to_file(vm);
                                let r = EioSeek::seek(&mut ff, SeekFrom::Start(b)).map(|_| ());
                                ff.to_raw_file();
                                r
                            }
                            _ => vm.file_seek_from_start(f, b as u32),
                        }
                    }
                    "seek_end" if u < 0 => {
                        // a position behind the end of the file: only the embedded-io trait can say that (`End(+n)`)
                        let b = self.vals.u2b((-u) as u64) as i64;
                        let mut ff = f.to_file(vm);
                        let r = EioSeek::seek(&mut ff, SeekFrom::End(b)).map(|_| ());
                        ff.to_raw_file();
                        r
                    }
                    "seek_end" => {
                        let b: u64 = if u <= lu { len - self.vals.u2b((lu - u) as u64) } else { len + 1 };
                        match api {
                            "eio" => {
                                let mut ff = f.to_file(vm);
                                let r = EioSeek::seek(&mut ff, SeekFrom::End(-(b as i64))).map(|_| ());
                                ff.to_raw_file();
                                r
                            }
                            _ => vm.file_seek_from_end(f, b as u32),
                        }
                    }
                    _ => {
                        let t = ou + u;
                        let delta: i64 = if t < 0 { -(off as i64) - 1 } else { self.vals.u2b(t as u64) as i64 - off as i64 };
                        match api {
                            "eio" => {
                                let mut ff = f.to_file(vm);
                                let r = EioSeek::seek(&mut ff, SeekFrom::Current(delta)).map(|_| ());
                                ff.to_raw_file();
                                r
                            }
                            _ => vm.file_seek_from_current(f, delta as i32),
                        }
                    }
                };
                match r {
                    Ok(()) => (args, res_ok(json!({}))),
                    Err(e) => (args, res_err(err_name(&e))),
                }
            }
            "length" | "offset" => {
                let f = self.file(op["f"].as_str().unwrap());
                let args = json!({"f": self.rel(hnum(&f))});
                let r = if name == "length" { vm.file_length(f) } else { vm.file_offset(f) };
                match r {
                    Ok(b) => (args, res_ok(json!({"n": self.vals.b2u(b as u64).map(|x| x as i64).unwrap_or(-1)}))),
                    Err(e) => (args, res_err(err_name(&e))),
                }
            }
            "eof" => {
                let f = self.file(op["f"].as_str().unwrap());
                let args = json!({"f": self.rel(hnum(&f))});
                match vm.file_eof(f) {
                    Ok(b) => (args, res_ok(json!({"b": b}))),
                    Err(e) => (args, res_err(err_name(&e))),
                }
            }
            "flush" => {
                let f = self.file(op["f"].as_str().unwrap());
                let args = json!({"f": self.rel(hnum(&f))});
                let r = match api {
                    "raii" => {
                        let ff = f.to_file(vm);
                        let r = ff.flush();
                        ff.to_raw_file();
                        r
                    }
                    "eio" => {
                        let mut ff = f.to_file(vm);
                        let r = EioWrite::flush(&mut ff);
                        ff.to_raw_file();
                        r
                    }
                    _ => vm.flush_file(f),
                };
                match r {
                    Ok(()) => (args, res_ok(json!({}))),
                    Err(e) => (args, res_err(err_name(&e))),
                }
            }
            "close_file" => {
                let var = op["f"].as_str().unwrap();
                let f = self.file(var);
                let args = json!({"f": self.rel(hnum(&f))});
                self.open_files.retain(|(_, x)| *x != f);
                let r = match api {
                    "raii" => f.to_file(vm).close(),
                    "drop" => {
                        drop(f.to_file(vm));
                        return (args, json!({"k": "drop", "e": "", "v": {}}));
                    }
                    _ => vm.close_file(f),
                };
                match r {
                    Ok(()) => (args, res_ok(json!({}))),
                    Err(e) => (args, res_err(err_name(&e))),
                }
            }
            "delete" | "mkdir" => {
                let d = self.dir(op["d"].as_str().unwrap());
                let (nm, mut args) = self.name_args(op);
                args["d"] = json!(self.rel(hnum(&d)));
                let r = if api == "raii" {
                    let dd = d.to_directory(vm);
                    let r = if name == "delete" { dd.delete_file_in_dir(nm.as_str()) } else { dd.make_dir_in_dir(nm.as_str()) };
                    dd.to_raw_directory();
                    r
                } else if name == "delete" {
                    vm.delete_file_in_dir(d, nm.as_str())
                } else {
                    vm.make_dir_in_dir(d, nm.as_str())
                };
                match r {
                    Ok(()) => (args, res_ok(json!({}))),
                    Err(e) => (args, res_err(err_name(&e))),
                }
            }
            "label" => {
                let v = self.vol(op["v"].as_str().unwrap());
                let args = json!({"v": self.rel(hnum(&v))});
                match vm.get_root_volume_label(v) {
                    Ok(Some(l)) => {
                        let s = unsafe { l.to_short_filename() };
                        (args, res_ok(json!({"has": true, "nm": hex(&sfn_bytes(&s))})))
                    }
                    Ok(None) => (args, res_ok(json!({"has": false, "nm": ""}))),
                    Err(e) => (args, res_err(err_name(&e))),
                }
            }
            "has_open" => (json!({}), res_ok(json!({"b": vm.has_open_handles()}))),
            _ => panic!("unknown op {}", name),
        }
    }
}

fn run_ops<const D: usize, const F: usize, const V: usize>(
    h: &J, img: &Image, vals: &mut Vals, events: &mut Vec<J>, stats: &mut Stats, opts: &RunOpts, sink: &mut Sink,
) {
    let id_offset = h.get("id_offset").and_then(|x| x.as_u64()).unwrap_or(5000) as u32;
    let clock = Clock(Rc::new(Cell::new(100)));
    let vm: VolumeManager<SparseDev, Clock, D, F, V> = VolumeManager::new_with_limits(img.dev.clone(), clock.clone(), id_offset);
    let mut shadow = Shadow { st: clone_state(&img.dev.0.borrow()) };
    let mut rng = Rng(opts.seed ^ 0x5151);
    let ops = h["ops"].as_array().unwrap();
    {
        let mut st = img.dev.0.borrow_mut();
        st.fail_at = h.get("fail_at").and_then(|x| x.as_u64());
        st.fail_from = h.get("fail_from").and_then(|x| x.as_u64());
        st.fail_set = h.get("fail_set").and_then(|x| x.as_array()).map(|a| a.iter().map(|x| x.as_u64().unwrap()).collect()).unwrap_or_default();
    }
    let mut ctx: Ctx<D, F, V> = Ctx { vm: &vm, vals, vars: HashMap::new(), open_files: Vec::new(), id_offset };
    let mut clk = 100u32;
    // every scenario op carries its index, so that outcomes can be lined up with what a model predicted
    let mut queue: std::collections::VecDeque<J> = ops.iter().cloned().enumerate().map(|(i, mut o)| { o["_i"] = json!(i); o }).collect();
    while let Some(op_owned) = queue.pop_front() {
        let op = &op_owned;
        let op_index: i64 = op.get("_i").and_then(|x| x.as_i64()).unwrap_or(-1);
        let name = op["op"].as_str().unwrap();
        if name == "lookup_all" {
            // every listed entry must be found by name (C06): expand into one find per entry
            if let Some(Var::Dir(d)) = op.get("d").and_then(|x| x.as_str()).and_then(|v| ctx.vars.get(v)).copied() {
                let mut names: Vec<String> = Vec::new();
                let _ = catch_unwind(AssertUnwindSafe(|| vm.iterate_dir(d, |de| names.push(hex(&sfn_bytes(&de.name))))));
                img.dev.0.borrow_mut().log.clear();
                for (k, n) in names.iter().enumerate().rev() {
                    if k < 64 {
                        queue.push_front(json!({"op": "find_sfn", "d": op["d"], "sfn": n}));
                    }
                }
            }
            continue;
        }
        let name = if name == "find_sfn" { "find" } else { name };
        if name == "remount" {
            let snap = img.dev.snapshot();
            let lv = lib_view(snap, &img.geos, ctx.vals);
            events.push(json!({"ev": "Remount", "vols": lv}));
            continue;
        }
        // an op whose handle variable was never bound (its open failed) is skipped
        let bound = |k: &str, want: u8| -> bool {
            match op.get(k).and_then(|x| x.as_str()) {
                None => true,
                Some(var) => match ctx.vars.get(var) {
                    Some(Var::Vol(_)) => want == 0,
                    Some(Var::Dir(_)) => want == 1,
                    Some(Var::File(_)) => want == 2,
                    None => false,
                },
            }
        };
        if name != "has_open" && !(bound("v", 0) && bound("d", 1) && bound("f", 2)) {
            continue;
        }
        // (a history may run on a clock that stands still: boards without a real-time clock report a constant time)
        match h.get("clock").and_then(|x| x.as_str()) {
            Some("stalled") => {}
            // ... or that is set back (end of daylight saving, a real-time clock that lost its setting)
            Some("backwards") => clk = if clk == 100 { 5000 } else { clk - 7 },
            _ => clk += 1,
        }
        clock.0.set(clk);
        stats.api_calls += 1;
        sink.flush_events(events);
        sink.begin_op(&h["id"], op, clk);
        let r = catch_unwind(AssertUnwindSafe(|| ctx.exec(op)));
        sink.end_op();
        let api = op.get("api").and_then(|x| x.as_str()).unwrap_or("raw");
        match r {
            Ok((args, res)) => {
                events.push(json!({"ev": "Call", "op": name, "a": args, "clk": clk, "api": api, "i": op_index}));
                drain_dev_log(&img.dev, &mut shadow, &img.geos, ctx.vals, events, stats, opts, &mut rng);
                let obs = catch_unwind(AssertUnwindSafe(|| ctx.obs())).unwrap_or(json!([]));
                let fateq = fat_copies_equal(&shadow.st, &img.geos);
                events.push(json!({"ev": "Ret", "op": name, "r": res, "obs": obs, "fateq": fateq}));
                if opts.remount && (name == "flush" || name == "close_file" || name == "close_volume" || name == "mkdir" || name == "delete") {
                    let snap = img.dev.snapshot();
                    let lv = lib_view(snap, &img.geos, ctx.vals);
                    events.push(json!({"ev": "Remount", "vols": lv}));
                }
            }
            Err(p) => {
                stats.panics += 1;
                // args unknown for a panicking call: re-derive what we can
                events.push(json!({"ev": "Call", "op": name, "a": {"panicked": true, "spec": op}, "clk": clk, "api": api, "i": op_index}));
                drain_dev_log(&img.dev, &mut shadow, &img.geos, ctx.vals, events, stats, opts, &mut rng);
                events.push(json!({"ev": "Ret", "op": name, "r": {"k": "panic", "e": panic_msg(&p), "v": {}}, "obs": [], "fateq": true}));
                break;
            }
        }
    }
}

/// Run one history and append its events.
pub fn run_history(h: &J, events: &mut Vec<J>, opts: &RunOpts, sink: &mut Sink) -> Stats {
    crate::set_log(h.get("log").and_then(|x| x.as_bool()).unwrap_or(false));
    // (a history can ask for a crash mount after every single device write when crash mounts are on at all)
    let every = RunOpts { crash_permille: 1000, seed: opts.seed, remount: opts.remount };
    let opts = if opts.crash_permille > 0 && h.get("crashall").and_then(|x| x.as_bool()).unwrap_or(false) { &every } else { opts };
    let bounds: Vec<usize> = h.get("bounds").and_then(|x| x.as_array()).map(|a| a.iter().map(|x| x.as_u64().unwrap() as usize).collect()).unwrap_or(vec![0, 3, 255, 509]);
    let mut vals = Vals::new(bounds.clone());
    let img = mkfs::build(&h["image"], &mut vals);
    let lim: Vec<u64> = h.get("limits").and_then(|x| x.as_array()).map(|a| a.iter().map(|x| x.as_u64().unwrap()).collect()).unwrap_or(vec![4, 4, 1]);
    let mut stats = Stats { api_calls: 0, dev_writes: 0, dev_reads: 0, crash_mounts: 0, panics: 0 };
    {
        let st = img.dev.0.borrow();
        let vols: Vec<J> = img.geos.iter().map(|g| reader::full_projection(&st, g, &vals)).collect();
        events.push(json!({"ev": "Reset", "hid": h["id"], "src": h.get("src").cloned().unwrap_or(json!("script")),
            "lim": lim, "upb": bounds.len(), "nvol": img.geos.len(), "vols": vols,
            "chk": h.get("chk").cloned().unwrap_or(json!("full")),
            "fault": h.get("fail_at").is_some() || h.get("fail_from").is_some() || h.get("fail_set").is_some()}));
    }
    macro_rules! go {
        ($d:expr, $f:expr, $v:expr) => {
            run_ops::<$d, $f, $v>(h, &img, &mut vals, events, &mut stats, opts, sink)
        };
    }
    match (lim[0], lim[1], lim[2]) {
        (4, 4, 1) => go!(4, 4, 1),
        (1, 1, 1) => go!(1, 1, 1),
        (2, 2, 2) => go!(2, 2, 2),
        (3, 2, 1) => go!(3, 2, 1),
        (2, 3, 4) => go!(2, 3, 4),
        (8, 8, 4) => go!(8, 8, 4),
        (1, 4, 2) => go!(1, 4, 2),
        (4, 1, 3) => go!(4, 1, 3),
        x => panic!("limit tuple {:?} not instantiated", x),
    }
    stats
}
