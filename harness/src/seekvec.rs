//! C01, seek arithmetic on files of any size (up to 2^32 - 1 bytes): the directory entry of a small chain is given an
//! arbitrary size field, the file is opened read-only and the three seeks are applied from many offsets with boundary
//! arguments.  Only offsets and results are observed (no data is read), so the short chain does not matter.
//! Numbers are emitted as [high 16 bits, low 16 bits] (TLC integers are 32-bit signed).

use crate::dev::SparseDev;
use crate::mkfs;
use crate::vals::{Rng, Vals};
use embedded_sdmmc::{Mode, TimeSource, Timestamp, VolumeIdx, VolumeManager};
use serde_json::{json, Value as J};
use std::io::Write;
use std::panic::{catch_unwind, AssertUnwindSafe};

struct Clk;
impl TimeSource for Clk {
    fn get_timestamp(&self) -> Timestamp {
        Timestamp { year_since_1970: 30, zero_indexed_month: 0, zero_indexed_day: 0, hours: 0, minutes: 0, seconds: 0 }
    }
}

fn halves(x: u32) -> J {
    json!([x >> 16, x & 0xFFFF])
}
/// a signed 32-bit number as [floor(x / 65536), x mod 65536]
fn shalves(x: i32) -> J {
    let v = x as i64;
    json!([v.div_euclid(65536), v.rem_euclid(65536)])
}

pub fn seek_vectors(out: &mut dyn Write, tier: &str, seed: u64) -> J {
    let quick = tier == "quick";
    let mut rng = Rng(seed ^ 0x5EE4);
    let mut n = 0u64;
    let mut sizes: Vec<u32> = vec![0, 1, 511, 512, 513, 65535, 65536, 0x7FFF_FFFF, 0x8000_0000, 0x8000_0001, 0x8002_0000, 0xFFFF_FFFE, 0xFFFF_FFFF];
    for _ in 0..(if quick { 3 } else { 30 }) {
        sizes.push(rng.next() as u32);
    }
    for (k, &size) in sizes.iter().enumerate() {
        let spec = json!({"vols": [{"fat32": k % 2 == 1, "clusters": if k % 2 == 1 { 65600 } else { 4100 }, "bpc": 1, "nfats": 1, "root_entries": 16, "lba": 8, "slot": 0,
            "ptype": if k % 2 == 1 { 12 } else { 6 }, "window": [2, 3, 4], "info_free": "unknown",
            "root": [{"t": "file", "name": "BIG     BIN", "chain": [3], "units": 1, "bytes": size, "attr": 32, "ct": 2, "mt": 3}]}]});
        let mut vals = Vals::new(vec![0]);
        let img = mkfs::build(&spec, &mut vals);
        let dev: SparseDev = img.dev.snapshot();
        let vm: VolumeManager<SparseDev, Clk, 4, 4, 1> = VolumeManager::new_with_limits(dev, Clk, 100);
        let vol = vm.open_raw_volume(VolumeIdx(0)).expect("open volume");
        let root = vm.open_root_dir(vol).expect("open root");
        let file = vm.open_file_in_dir(root, "BIG.BIN", Mode::ReadOnly).expect("open file");
        let len = vm.file_length(file).unwrap_or(0);
        let mut offs: Vec<u32> = vec![0, 1, 16, size / 2, size.saturating_sub(1), size, size.wrapping_sub(0x10), 0x10, 0x7FFF_FFFF, 0x8000_0000, 0x8001_0010];
        offs.retain(|&o| o <= size);
        offs.sort();
        offs.dedup();
        let mut deltas: Vec<i32> = vec![0, 1, -1, 16, -16, i32::MAX, i32::MIN, i32::MAX - 1, i32::MIN + 1, 0x4000_0000, -0x4000_0000, 65536, -65536];
        for _ in 0..(if quick { 4 } else { 40 }) {
            deltas.push(rng.next() as i32);
        }
        let mut abs: Vec<u32> = vec![0, 1, size / 2, size.saturating_sub(1), size, size.wrapping_add(1), 0x7FFF_FFFF, 0x8000_0000, 0xFFFF_FFFF];
        for _ in 0..(if quick { 3 } else { 30 }) {
            abs.push(rng.next() as u32);
        }
        abs.sort();
        abs.dedup();
        let mut emit = |kind: &str, off0: u32, arg: J, r: Result<bool, String>, off1: u32, out: &mut dyn Write| {
            let (k, ok) = match &r {
                Ok(b) => ("ret", *b),
                Err(_) => ("panic", false),
            };
            let j = json!({"ev": "Seek", "kind": kind, "size": halves(size), "len": halves(len), "off0": halves(off0), "arg": arg, "r": k, "ok": ok,
                "msg": r.err().unwrap_or_default(), "off1": halves(off1)});
            serde_json::to_writer(&mut *out, &j).unwrap();
            out.write_all(b"\n").unwrap();
        };
        for &o in &offs {
            for &d in &deltas {
                if vm.file_seek_from_start(file, o).is_err() {
                    continue;
                }
                let r = catch_unwind(AssertUnwindSafe(|| vm.file_seek_from_current(file, d).is_ok())).map_err(|p| crate::fs::panic_msg(&p));
                let off1 = vm.file_offset(file).unwrap_or(0xDEAD_BEEF);
                emit("cur", o, shalves(d), r, off1, out);
                n += 1;
            }
            for &a in &abs {
                if vm.file_seek_from_start(file, o).is_err() {
                    continue;
                }
                let r = catch_unwind(AssertUnwindSafe(|| vm.file_seek_from_start(file, a).is_ok())).map_err(|p| crate::fs::panic_msg(&p));
                let off1 = vm.file_offset(file).unwrap_or(0xDEAD_BEEF);
                emit("start", o, halves(a), r, off1, out);
                n += 1;
                let _ = vm.file_seek_from_start(file, o);
                let r = catch_unwind(AssertUnwindSafe(|| vm.file_seek_from_end(file, a).is_ok())).map_err(|p| crate::fs::panic_msg(&p));
                let off1 = vm.file_offset(file).unwrap_or(0xDEAD_BEEF);
                emit("end", o, halves(a), r, off1, out);
                n += 1;
            }
        }
    }
    n += big_vectors(out, quick, &mut rng);
    json!({"vectors": n})
}

/// Reads and writes at the far end of files of nearly 2^32 bytes (64 KiB clusters, chains of up to 65 536 clusters whose
/// contents are never materialised): outcome, offset, length, what reads back and what the directory entry says afterwards.
fn big_vectors(out: &mut dyn Write, quick: bool, rng: &mut Rng) -> u64 {
    let mut n = 0u64;
    const CL: u64 = 65536;
    let mut sizes: Vec<u32> = vec![0xFFFF_FFFF, 0xFFFF_FFFE, 0xFFFF_FF00, 0xFFFF_0000, 0xFFFE_FFF0, 0x8000_0000, 0x7FFF_FFFF];
    if !quick {
        for _ in 0..6 {
            sizes.push(0xFF00_0000 | (rng.next() as u32 & 0x00FF_FFFF));
        }
    }
    for &size in &sizes {
        let nclus = ((size as u64 + CL - 1) / CL) as u32;
        let chain: Vec<u32> = (3..3 + nclus).collect();
        let window: Vec<u32> = (2..3 + nclus + 8).collect();
        let spec = json!({"vols": [{"fat32": true, "clusters": 65700, "bpc": 128, "nfats": 1, "lba": 8, "slot": 0, "ptype": 12, "window": window, "info_free": "unknown",
            "root": [{"t": "file", "name": "BIG     BIN", "chain": chain, "units": 0, "bytes": size, "nodata": true, "attr": 32, "ct": 2, "mt": 3}]}]});
        let mut vals = Vals::new(vec![0]);
        let img = mkfs::build(&spec, &mut vals);
        // (offset, number of bytes)
        let mut cases: Vec<(u32, usize)> = Vec::new();
        for &back in &[0u32, 1, 2, 15, 16, 255, 256, 511, 512, 513, 600, 65535, 65536, 70000] {
            if back > size {
                continue;
            }
            let off = size - back;
            for &len in &[1usize, 2, 16, 255, 256, 257, 512, 513, 1024, 66000] {
                // keep what is interesting: reaching, touching or passing the end of the file or the 2^32 - 1 limit
                let end = off as u64 + len as u64;
                if end + 600 >= size as u64 || end >= 0xFFFF_FFFF {
                    cases.push((off, len));
                }
            }
        }
        if quick {
            let keep: Vec<(u32, usize)> = cases.iter().cloned().enumerate().filter(|(i, _)| i % 3 == (size % 3) as usize).map(|(_, c)| c).collect();
            cases = keep;
        }
        for &(off, len) in &cases {
            for write in [false, true] {
                let dev: SparseDev = img.dev.snapshot();
                let vm: VolumeManager<SparseDev, Clk, 4, 4, 1> = VolumeManager::new_with_limits(dev, Clk, 100);
                let vol = vm.open_raw_volume(VolumeIdx(0)).expect("open volume");
                let root = vm.open_root_dir(vol).expect("open root");
                let file = vm.open_file_in_dir(root, "BIG.BIN", if write { Mode::ReadWriteAppend } else { Mode::ReadOnly }).expect("open file");
                vm.file_seek_from_start(file, off).expect("seek inside the file");
                let data: Vec<u8> = (0..len).map(|i| (i as u8) ^ 0xA5 ^ (off as u8)).collect();
                let r = catch_unwind(AssertUnwindSafe(|| -> Result<(bool, usize, usize), String> {
                    if write {
                        let ok = vm.write(file, &data).is_ok();
                        // how much of it reads back
                        let off1 = vm.file_offset(file).map_err(|_| "offset".to_string())?;
                        let len1 = vm.file_length(file).map_err(|_| "length".to_string())?;
                        let mut back = 0usize;
                        if vm.file_seek_from_start(file, off).is_ok() {
                            let mut buf = vec![0u8; len];
                            let mut got = 0usize;
                            while got < len {
                                match vm.read(file, &mut buf[got..]) {
                                    Ok(0) | Err(_) => break,
                                    Ok(k) => got += k,
                                }
                            }
                            while back < got && buf[back] == data[back] {
                                back += 1;
                            }
                        }
                        let _ = vm.file_seek_from_start(file, off1.min(len1));
                        Ok((ok, back, 0))
                    } else {
                        let mut buf = vec![0u8; len];
                        match vm.read(file, &mut buf) {
                            Ok(k) => Ok((true, k, 0)),
                            Err(_) => Ok((false, 0, 0)),
                        }
                    }
                }))
                .unwrap_or_else(|p| Err(crate::fs::panic_msg(&p)));
                let off1 = vm.file_offset(file).unwrap_or(0xDEAD_BEEF);
                let len1 = vm.file_length(file).unwrap_or(0xDEAD_BEEF);
                let eof = vm.file_eof(file).unwrap_or(false);
                let closed = catch_unwind(AssertUnwindSafe(|| vm.close_file(file).is_ok())).unwrap_or(false);
                let disk = vm.find_directory_entry(root, "BIG.BIN").map(|e| e.size).unwrap_or(0xDEAD_BEEF);
                let (k, ok, cnt, msg) = match r {
                    Ok((ok, c, _)) => ("ret", ok, c, String::new()),
                    Err(m) => ("panic", false, 0, m),
                };
                let j = json!({"ev": if write { "BigWrite" } else { "BigRead" }, "size": halves(size), "off0": halves(off), "n": len, "r": k, "ok": ok, "cnt": cnt, "msg": msg,
                    "off1": halves(off1), "len1": halves(len1), "eof": eof, "closed": closed, "disk": halves(disk)});
                serde_json::to_writer(&mut *out, &j).unwrap();
                out.write_all(b"\n").unwrap();
                n += 1;
            }
        }
    }
    n
}
