//! Independent FAT16/FAT32 formatter, written from the Microsoft FAT specification.
//! Shares no code with the library under test.

use crate::dev::{Blk, DefaultRule, SparseDev};
use crate::vals::{clock_to_fat, name11, unhex, Vals};
use serde_json::Value as J;

#[derive(Clone, Debug)]
pub struct Geo {
    pub slot: usize,
    pub ptype: u8,
    pub fat32: bool,
    pub bpc: u32,
    pub count: u32,
    pub nfats: u32,
    pub eps: u32,
    pub part_start: u32,
    pub part_len: u32,
    pub resv: u32,
    pub fat_start: u32,  // absolute
    pub fat_len: u32,    // sectors per FAT
    pub fat2_start: u32, // absolute, 0 if none
    pub root_start: u32, // absolute (FAT16), 0 on FAT32
    pub root_blocks: u32,
    pub root_entries: u32,
    pub data_start: u32, // absolute
    pub info_blk: u32,   // absolute, 0 on FAT16
    pub root_clus: u32,  // FAT32 root cluster, 0 on FAT16
    pub window: Vec<u32>,
    pub slack: Vec<u32>,
}

impl Geo {
    pub fn cluster_block(&self, c: u32) -> u32 {
        self.data_start + (c - 2) * self.bpc
    }
    pub fn block_cluster(&self, b: u32) -> Option<u32> {
        if b < self.data_start {
            return None;
        }
        let c = (b - self.data_start) / self.bpc + 2;
        if c < self.count + 2 {
            Some(c)
        } else {
            None
        }
    }
    pub fn in_window(&self, c: u32) -> bool {
        self.window.binary_search(&c).is_ok()
    }
    pub fn fat_entry_pos(&self, c: u32) -> (u32, usize) {
        let eb = if self.fat32 { 4 } else { 2 };
        let off = c * eb;
        (off / 512, (off % 512) as usize)
    }
    pub fn region(&self, b: u32) -> &'static str {
        if b < self.part_start || b >= self.part_start + self.part_len {
            return "out";
        }
        if b == self.part_start {
            return "boot";
        }
        if self.info_blk != 0 && b == self.info_blk {
            return "info";
        }
        if b < self.fat_start {
            return "resv";
        }
        if b < self.fat_start + self.fat_len {
            return "fat1";
        }
        if self.fat2_start != 0 && b >= self.fat2_start && b < self.fat2_start + self.fat_len {
            return "fat2";
        }
        if self.root_blocks != 0 && b >= self.root_start && b < self.root_start + self.root_blocks {
            return "root";
        }
        if b >= self.data_start && b < self.data_start + self.count * self.bpc {
            return "data";
        }
        "tail" // inside the partition but past the last cluster
    }
    pub fn to_json(&self) -> J {
        serde_json::json!({
            "slot": self.slot, "fat32": self.fat32, "bpc": self.bpc, "count": self.count,
            "nfats": self.nfats, "eps": self.eps, "partStart": self.part_start,
            "partLen": self.part_len, "fatStart": self.fat_start, "fatLen": self.fat_len,
            "fat2Start": self.fat2_start, "rootStart": self.root_start,
            "rootBlocks": self.root_blocks, "dataStart": self.data_start,
            "infoBlk": self.info_blk, "rootClus": self.root_clus,
            "win": self.window, "slack": self.slack,
        })
    }
}

pub struct Image {
    pub dev: SparseDev,
    pub geos: Vec<Geo>,
    pub num_blocks: u32,
}

fn ju(v: &J, k: &str, d: u64) -> u64 {
    v.get(k).and_then(|x| x.as_u64()).unwrap_or(d)
}
fn jb(v: &J, k: &str, d: bool) -> bool {
    v.get(k).and_then(|x| x.as_bool()).unwrap_or(d)
}

struct Fmt<'a> {
    dev: &'a SparseDev,
    g: Geo,
    fat: std::collections::HashMap<u32, u32>, // explicit entries (window + reserved)
    hi: std::collections::HashMap<u32, u32>,
}

pub fn lfn_csum(name: &[u8; 11]) -> u8 {
    let mut s = 0u8;
    for &b in name.iter() {
        s = (if s & 1 != 0 { 0x80u8 } else { 0 }).wrapping_add(s >> 1).wrapping_add(b);
    }
    s
}

fn entry_bytes(name: &[u8; 11], attr: u8, cluster: u32, size: u32, ct: u32, mt: u32, fat32: bool) -> [u8; 32] {
    let mut s = [0u8; 32];
    s[..11].copy_from_slice(name);
    s[11] = attr;
    let (cd, ctm) = clock_to_fat(ct);
    let (wd, wtm) = clock_to_fat(mt);
    s[14..16].copy_from_slice(&ctm.to_le_bytes());
    s[16..18].copy_from_slice(&cd.to_le_bytes());
    s[18..20].copy_from_slice(&wd.to_le_bytes()); // last access date (foreign formatter sets it)
    if fat32 {
        s[20..22].copy_from_slice(&((cluster >> 16) as u16).to_le_bytes());
    }
    s[22..24].copy_from_slice(&wtm.to_le_bytes());
    s[24..26].copy_from_slice(&wd.to_le_bytes());
    s[26..28].copy_from_slice(&(cluster as u16).to_le_bytes());
    s[28..32].copy_from_slice(&size.to_le_bytes());
    s
}

pub fn lfn_slot(seq: u8, csum: u8, u: &[u16]) -> [u8; 32] {
    let mut s = [0u8; 32];
    s[0] = seq;
    s[11] = 0x0F;
    s[13] = csum;
    let pos = [1usize, 3, 5, 7, 9, 14, 16, 18, 20, 22, 24, 28, 30];
    for (i, p) in pos.iter().enumerate() {
        let x = u.get(i).copied().unwrap_or(0xFFFF);
        s[*p..*p + 2].copy_from_slice(&x.to_le_bytes());
    }
    s
}

impl<'a> Fmt<'a> {
    fn put(&self, b: u32, data: &Blk) {
        self.dev.0.borrow_mut().put(b, data);
    }
    fn get(&self, b: u32) -> Blk {
        self.dev.0.borrow().get(b)
    }
    fn link_chain(&mut self, chain: &[u32]) {
        // every value from ...F8 to ...FF ends a chain: other systems write ...F8 or ...FF, mkfs.fat ...F8 for the FAT32 root
        let eoc = [0xFFFFu32, 0xFFF8, 0xFFFF, 0xFFFE, 0xFFFB][(chain.first().copied().unwrap_or(0) % 5) as usize];
        for (i, &c) in chain.iter().enumerate() {
            assert!(self.g.in_window(c), "cluster {} not in window", c);
            assert!(self.fat.get(&c).copied().unwrap_or(0) == 0, "cluster {} used twice", c);
            let nxt = if i + 1 < chain.len() { chain[i + 1] } else if self.g.fat32 { 0x0FFF_0000 | eoc } else { eoc };
            self.fat.insert(c, nxt);
        }
    }
    /// Build the 32-byte slots of a directory from its spec; allocates and fills children.
    fn build_slots(&mut self, specs: &[J], vals: &mut Vals, self_clus: u32, parent_clus: u32, is_root: bool) -> Vec<[u8; 32]> {
        let fat32 = self.g.fat32;
        let mut out: Vec<[u8; 32]> = Vec::new();
        if !is_root {
            out.push(entry_bytes(b".          ", 0x10, self_clus, 0, 1, 1, fat32));
            out.push(entry_bytes(b"..         ", 0x10, parent_clus, 0, 1, 1, fat32));
        }
        for sp in specs {
            let t = sp["t"].as_str().unwrap();
            match t {
                "file" | "del" => {
                    let name = name11(sp["name"].as_str().unwrap());
                    let attr = ju(sp, "attr", 0x20) as u8;
                    let chain: Vec<u32> = sp.get("chain").and_then(|c| c.as_array()).map(|a| a.iter().map(|x| x.as_u64().unwrap() as u32).collect()).unwrap_or_default();
                    let units = ju(sp, "units", 0);
                    let ct = ju(sp, "ct", 2) as u32;
                    let mt = ju(sp, "mt", 3) as u32;
                    let mut size = vals.u2b(units) as u32;
                    if let Some(b) = sp.get("bytes").and_then(|x| x.as_u64()) {
                        size = b as u32;
                    }
                    let first = chain.first().copied().unwrap_or(0);
                    // a name whose first character is 0xE5 is stored with 0x05 there (0xE5 marks a deleted entry)
                    let mut stored = name;
                    if t == "file" && stored[0] == 0xE5 {
                        stored[0] = 0x05;
                    }
                    let mut e = entry_bytes(&stored, attr, first, size, ct, mt, fat32);
                    // on FAT16 bytes 20..22 are not part of the cluster number: another system may have left something there
                    if !fat32 {
                        if let Some(h) = sp.get("hi16").and_then(|x| x.as_u64()) {
                            e[20..22].copy_from_slice(&(h as u16).to_le_bytes());
                        }
                    }
                    if t == "file" && jb(sp, "nodata", false) {
                        // a (huge) file whose contents do not matter: only the chain is linked
                        self.link_chain(&chain);
                    } else if t == "file" {
                        self.link_chain(&chain);
                        // fill data: every block of the chain is written (zero padded)
                        let upb = vals.upb();
                        let mut u = 0u64;
                        for &c in &chain {
                            for bi in 0..self.g.bpc {
                                let blk = self.g.cluster_block(c) + bi;
                                let mut data = [0u8; 512];
                                for j in 0..upb {
                                    if u >= units {
                                        break;
                                    }
                                    let (_v, bytes) = vals.fresh(j);
                                    let (s, e2) = vals.unit_range(j);
                                    data[s..e2].copy_from_slice(&bytes);
                                    u += 1;
                                }
                                self.put(blk, &data);
                            }
                        }
                    } else {
                        e[0] = 0xE5;
                    }
                    out.push(e);
                }
                "dir" => {
                    let name = name11(sp["name"].as_str().unwrap());
                    let attr = ju(sp, "attr", 0x10) as u8;
                    let chain: Vec<u32> = sp["chain"].as_array().unwrap().iter().map(|x| x.as_u64().unwrap() as u32).collect();
                    let ct = ju(sp, "ct", 2) as u32;
                    let mt = ju(sp, "mt", 2) as u32;
                    self.link_chain(&chain);
                    let kids = sp.get("slots").and_then(|x| x.as_array()).cloned().unwrap_or_default();
                    let pc = if is_root { 0 } else { self_clus };
                    let slots = self.build_slots(&kids, vals, chain[0], pc, false);
                    self.write_dir_chain(&chain, &slots);
                    out.push(entry_bytes(&name, attr, chain[0], 0, ct, mt, fat32));
                }
                "lfn" => {
                    let u: Vec<u16> = sp["u"].as_array().unwrap().iter().map(|x| x.as_u64().unwrap() as u16).collect();
                    let mut s = lfn_slot(ju(sp, "seq", 0x41) as u8, ju(sp, "csum", 0) as u8, &u);
                    if let Some(a) = sp.get("attr").and_then(|x| x.as_u64()) {
                        s[11] = a as u8;
                    }
                    out.push(s);
                }
                "lfnfor" => {
                    // a well-formed run for the short name that follows
                    let name = name11(sp["name"].as_str().unwrap());
                    let long: Vec<u16> = sp["long"].as_array().unwrap().iter().map(|x| x.as_u64().unwrap() as u16).collect();
                    let cs = lfn_csum(&name);
                    let mut padded = long.clone();
                    if padded.len() % 13 != 0 {
                        padded.push(0);
                    }
                    let nfrag = (padded.len() + 12) / 13;
                    for k in (0..nfrag).rev() {
                        let chunk: Vec<u16> = padded[k * 13..std::cmp::min(padded.len(), k * 13 + 13)].to_vec();
                        let mut seq = (k + 1) as u8;
                        if k == nfrag - 1 {
                            seq |= 0x40;
                        }
                        out.push(lfn_slot(seq, cs, &chunk));
                    }
                }
                "label" => {
                    let name = name11(sp["name"].as_str().unwrap());
                    let mut e = entry_bytes(&name, 0x08, 0, 0, 1, 1, fat32);
                    if jb(sp, "zerotime", false) {
                        for k in 14..26 {
                            e[k] = 0;
                        }
                    }
                    out.push(e);
                }
                "raw" => {
                    let v = unhex(sp["hex"].as_str().unwrap());
                    let mut s = [0u8; 32];
                    s.copy_from_slice(&v[..32]);
                    out.push(s);
                }
                "end" => out.push([0u8; 32]),
                _ => panic!("unknown slot spec {}", t),
            }
        }
        out
    }
    fn write_dir_chain(&mut self, chain: &[u32], slots: &[[u8; 32]]) {
        let cap = chain.len() as u32 * self.g.bpc * 16;
        assert!(slots.len() as u32 <= cap, "directory too small for its slots");
        let mut i = 0usize;
        for &c in chain {
            for bi in 0..self.g.bpc {
                let mut data = [0u8; 512];
                for k in 0..16 {
                    if i < slots.len() {
                        data[k * 32..k * 32 + 32].copy_from_slice(&slots[i]);
                        i += 1;
                    }
                }
                self.put(self.g.cluster_block(c) + bi, &data);
            }
        }
    }
}

/// Format one volume according to `spec`; returns its geometry.
fn format_volume(dev: &SparseDev, spec: &J, vals: &mut Vals, rule: &mut DefaultRule) -> Geo {
    let fat32 = jb(spec, "fat32", false);
    let bpc = ju(spec, "bpc", 1) as u32;
    let count = ju(spec, "clusters", if fat32 { 65525 } else { 4090 }) as u32;
    let nfats = ju(spec, "nfats", 2) as u32;
    let resv = ju(spec, "reserved", if fat32 { 32 } else { 1 }) as u32;
    let root_entries = if fat32 { 0 } else { ju(spec, "root_entries", 32) as u32 };
    let lba = ju(spec, "lba", 8) as u32;
    let slot = ju(spec, "slot", 0) as usize;
    let ptype = ju(spec, "ptype", if fat32 { 0x0C } else { 0x06 }) as u8;
    let eps: u32 = if fat32 { 128 } else { 256 };
    let fat_len = (count + 2 + eps - 1) / eps + ju(spec, "fat_extra", 0) as u32;
    let root_blocks = (root_entries * 32 + 511) / 512;
    let tail = ju(spec, "extra_tail", 0) as u32;
    assert!(tail < bpc || bpc == 1 && tail == 0);
    let total = resv + nfats * fat_len + root_blocks + count * bpc + tail;
    let part_len = total + ju(spec, "part_extra", 0) as u32;
    let fsinfo = ju(spec, "fsinfo", 1) as u32;
    let root_clus = if fat32 { ju(spec, "root_cluster", 2) as u32 } else { 0 };
    let mut window: Vec<u32> = spec["window"].as_array().unwrap().iter().map(|x| x.as_u64().unwrap() as u32).collect();
    window.sort();
    window.dedup();
    for &c in &window {
        assert!(c >= 2 && c < count + 2, "window cluster {} out of range", c);
    }
    let slack: Vec<u32> = (count + 2..fat_len * eps).collect();
    let slack: Vec<u32> = if slack.len() > 300 { slack[..300].to_vec() } else { slack };
    let fat_start = lba + resv;
    let fat2_start = if nfats == 2 { fat_start + fat_len } else { 0 };
    let root_start = if fat32 { 0 } else { fat_start + nfats * fat_len };
    let data_start = fat_start + nfats * fat_len + root_blocks;
    let g = Geo {
        slot, ptype, fat32, bpc, count, nfats, eps, part_start: lba, part_len, resv, fat_start, fat_len,
        fat2_start, root_start, root_blocks, root_entries, data_start,
        info_blk: if fat32 { lba + fsinfo } else { 0 }, root_clus, window, slack,
    };
    // default rules
    let kind = if fat32 { 2 } else { 1 };
    rule.regions.push((fat_start, fat_len, kind));
    // (with three and more copies - legal, rare - the library keeps only the first one up to date; the others are formatted
    //  like the first and then belong to nobody: fat2_start stays 0 and no call may write there)
    for k in 1..nfats {
        rule.regions.push((fat_start + k * fat_len, fat_len, kind));
    }
    rule.regions.push((data_start, count * bpc + tail, 3));
    dev.0.borrow_mut().rule = rule.clone();

    let mut f = Fmt { dev, g: g.clone(), fat: Default::default(), hi: Default::default() };
    // boot sector
    let mut bs = [0u8; 512];
    bs[0] = 0xEB;
    bs[1] = 0x3C;
    bs[2] = 0x90;
    bs[3..11].copy_from_slice(b"VERIFMKF");
    bs[11..13].copy_from_slice(&512u16.to_le_bytes());
    bs[13] = bpc as u8;
    bs[14..16].copy_from_slice(&(resv as u16).to_le_bytes());
    bs[16] = nfats as u8;
    bs[17..19].copy_from_slice(&(root_entries as u16).to_le_bytes());
    let total16 = jb(spec, "total16", false) && total < 65536;
    if total16 {
        bs[19..21].copy_from_slice(&(total as u16).to_le_bytes());
    } else {
        bs[32..36].copy_from_slice(&total.to_le_bytes());
    }
    bs[21] = 0xF8;
    if !fat32 {
        bs[22..24].copy_from_slice(&(fat_len as u16).to_le_bytes());
    }
    bs[24..26].copy_from_slice(&63u16.to_le_bytes());
    bs[26..28].copy_from_slice(&255u16.to_le_bytes());
    bs[28..32].copy_from_slice(&lba.to_le_bytes());
    let label = spec.get("bpb_label").and_then(|x| x.as_str()).unwrap_or("           ");
    let lab = name11(label);
    if fat32 {
        bs[36..40].copy_from_slice(&fat_len.to_le_bytes());
        // extended flags: bit 7 = mirroring off, bits 0..3 = the active FAT then (the library mirrors regardless, which keeps
        // every copy right whatever the flags say)
        bs[40..42].copy_from_slice(&(ju(spec, "ext_flags", 0) as u16).to_le_bytes());
        bs[44..48].copy_from_slice(&root_clus.to_le_bytes());
        bs[48..50].copy_from_slice(&(fsinfo as u16).to_le_bytes());
        let bk: u16 = if resv > 6 && fsinfo != 6 { 6 } else { 0 }; // backup boot sector, when there is room for it
        bs[50..52].copy_from_slice(&bk.to_le_bytes());
        bs[64] = 0x80;
        // (byte 65, "reserved": other systems keep a dirty / check-disk flag in its low bits while the volume is mounted)
        bs[65] = ju(spec, "dirty", 0) as u8;
        bs[66] = 0x29;
        bs[67..71].copy_from_slice(&(ju(spec, "serial", 0x1234_5678) as u32).to_le_bytes());
        bs[71..82].copy_from_slice(&lab);
        bs[82..90].copy_from_slice(b"FAT32   ");
    } else {
        bs[36] = 0x80;
        bs[38] = 0x29;
        // (bytes 40..42 would be the FAT32 "extended flags" - FAT mirroring - if this were a FAT32 volume: here they are serial number)
        bs[39..43].copy_from_slice(&(ju(spec, "serial", 0x1234_5678) as u32).to_le_bytes());
        bs[43..54].copy_from_slice(&lab);
        bs[54..62].copy_from_slice(b"FAT16   ");
    }
    bs[510] = 0x55;
    bs[511] = 0xAA;
    f.put(lba, &bs);
    // reserved entries
    f.fat.insert(0, if fat32 { 0x0FFF_FFF8 } else { 0xFFF8 });
    f.fat.insert(1, if fat32 { 0x0FFF_FFFF } else { 0xFFFF });
    for &c in &g.window {
        f.fat.insert(c, 0);
    }
    for &c in &g.slack {
        f.fat.insert(c, 0);
    }
    if let Some(h) = spec.get("hi").and_then(|x| x.as_object()) {
        for (k, v) in h {
            f.hi.insert(k.parse().unwrap(), v.as_u64().unwrap() as u32);
        }
    }
    // pre-marked entries (bad / reserved inside the window), e.g. {"4090": 65527}
    let premark: Vec<(u32, u32)> = spec.get("mark").and_then(|x| x.as_object()).map(|m| m.iter().map(|(k, v)| (k.parse().unwrap(), v.as_u64().unwrap() as u32)).collect()).unwrap_or_default();
    // root directory + tree
    let root_specs = spec.get("root").and_then(|x| x.as_array()).cloned().unwrap_or_default();
    if fat32 {
        let root_chain: Vec<u32> = spec.get("root_chain").and_then(|x| x.as_array()).map(|a| a.iter().map(|x| x.as_u64().unwrap() as u32).collect()).unwrap_or(vec![root_clus]);
        assert!(root_chain[0] == root_clus);
        f.link_chain(&root_chain);
        let slots = f.build_slots(&root_specs, vals, 0, 0, true);
        f.write_dir_chain(&root_chain, &slots);
    } else {
        let slots = f.build_slots(&root_specs, vals, 0, 0, true);
        assert!(slots.len() as u32 <= root_entries, "root too small");
        let mut i = 0;
        for b in 0..root_blocks {
            let mut data = [0u8; 512];
            for k in 0..16 {
                if i < slots.len() {
                    data[k * 32..k * 32 + 32].copy_from_slice(&slots[i]);
                    i += 1;
                }
            }
            f.put(root_start + b, &data);
        }
    }
    for (c, v) in premark {
        f.fat.insert(c, v);
    }
    // write the explicit FAT sectors (both copies)
    let mut sectors: Vec<u32> = f.fat.keys().map(|&c| g.fat_entry_pos(c).0).collect();
    sectors.sort();
    sectors.dedup();
    for s in sectors {
        let mut data = f.get(fat_start + s);
        for (&c, &v) in f.fat.iter() {
            let (sec, off) = g.fat_entry_pos(c);
            if sec != s {
                continue;
            }
            if fat32 {
                let hi = f.hi.get(&c).copied().unwrap_or(0);
                data[off..off + 4].copy_from_slice(&((v & 0x0FFF_FFFF) | (hi << 28)).to_le_bytes());
            } else {
                data[off..off + 2].copy_from_slice(&(v as u16).to_le_bytes());
            }
        }
        f.put(fat_start + s, &data);
        for k in 1..nfats {
            f.put(fat_start + k * fat_len + s, &data);
        }
    }
    // info sector
    if fat32 {
        let free_real = g.window.iter().filter(|c| f.fat[c] == 0).count() as u32;
        let mut is = [0u8; 512];
        is[0..4].copy_from_slice(&0x4161_5252u32.to_le_bytes());
        is[484..488].copy_from_slice(&0x6141_7272u32.to_le_bytes());
        let free = match spec.get("info_free") {
            Some(J::String(s)) if s == "unknown" => 0xFFFF_FFFF,
            Some(J::Number(n)) => n.as_u64().unwrap() as u32,
            _ => free_real,
        };
        let next = match spec.get("info_next") {
            Some(J::Number(n)) => n.as_u64().unwrap() as u32,
            Some(J::String(s)) if s == "first" => g.window.iter().copied().find(|c| f.fat[c] == 0).unwrap_or(0xFFFF_FFFF),
            _ => 0xFFFF_FFFF,
        };
        is[488..492].copy_from_slice(&free.to_le_bytes());
        is[492..496].copy_from_slice(&next.to_le_bytes());
        is[508..512].copy_from_slice(&0xAA55_0000u32.to_le_bytes());
        f.put(g.info_blk, &is);
        // backup boot sector
        if resv > 6 && fsinfo != 6 {
            f.put(lba + 6, &bs);
        }
    }
    g
}

/// Build a whole device image from the JSON image spec.
pub fn build(spec: &J, vals: &mut Vals) -> Image {
    let vols = spec["vols"].as_array().unwrap();
    let mut rule = DefaultRule { regions: Vec::new() };
    let dev = SparseDev::new(DefaultRule { regions: Vec::new() }, 0);
    let mut geos = Vec::new();
    let mut mbr = [0u8; 512];
    let mut end = 1u32;
    for v in vols {
        if v.get("foreign").and_then(|x| x.as_bool()).unwrap_or(false) {
            // a non-FAT partition: recognisable content, must never change
            let slot = ju(v, "slot", 0) as usize;
            let lba = ju(v, "lba", 0) as u32;
            let len = ju(v, "len", 64) as u32;
            let p = 446 + slot * 16;
            mbr[p + 4] = ju(v, "ptype", 0x83) as u8;
            mbr[p + 8..p + 12].copy_from_slice(&lba.to_le_bytes());
            mbr[p + 12..p + 16].copy_from_slice(&len.to_le_bytes());
            rule.regions.push((lba, len, 3));
            end = end.max(lba + len);
            continue;
        }
        let g = format_volume(&dev, v, vals, &mut rule);
        let p = 446 + g.slot * 16;
        mbr[p] = if ju(v, "bootable", 0) == 1 { 0x80 } else { 0 };
        mbr[p + 4] = g.ptype;
        mbr[p + 8..p + 12].copy_from_slice(&g.part_start.to_le_bytes());
        mbr[p + 12..p + 16].copy_from_slice(&g.part_len.to_le_bytes());
        end = end.max(g.part_start + g.part_len);
        geos.push(g);
    }
    mbr[510] = 0x55;
    mbr[511] = 0xAA;
    // guard area behind the last partition (poisoned so an overrun is visible)
    rule.regions.push((end, 256, 3));
    {
        let mut s = dev.0.borrow_mut();
        s.put(0, &mbr);
        s.rule = rule;
        s.num_blocks = end + 256;
    }
    Image { dev, geos, num_blocks: end + 256 }
}
