//! The real `BlockCache` driven directly (it is a public type): every sequence of a few calls over a small alphabet -
//! read, read_mut + modification, blank_mut + fill, write_back, write_back_with_duplicate - with device calls that fail
//! (a failing read may have filled half of the buffer).  One event per call for CacheTrace (spec/BlockCache.tla).
//! A block's value is the byte it is uniformly filled with; anything else is a mixture (-1).

use embedded_sdmmc::{Block, BlockCache, BlockCount, BlockDevice, BlockIdx};
use serde_json::{json, Value as J};
use std::cell::RefCell;
use std::io::Write;
use std::panic::{catch_unwind, AssertUnwindSafe};
use std::rc::Rc;

#[derive(Default)]
struct DevState {
    blocks: Vec<[u8; 512]>,
    /// outcome of the next device calls: (fail, partial)
    plan: Vec<(bool, bool)>,
}
#[derive(Clone)]
struct FaultyDev(Rc<RefCell<DevState>>);
#[derive(Debug)]
struct DevErr;
impl BlockDevice for FaultyDev {
    type Error = DevErr;
    fn read(&self, blocks: &mut [Block], start: BlockIdx) -> Result<(), DevErr> {
        let mut st = self.0.borrow_mut();
        let (fail, partial) = if st.plan.is_empty() { (false, false) } else { st.plan.remove(0) };
        for (i, b) in blocks.iter_mut().enumerate() {
            let src = st.blocks[start.0 as usize + i];
            if fail {
                if partial {
                    b.contents[..256].copy_from_slice(&src[..256]);
                }
                return Err(DevErr);
            }
            b.contents.copy_from_slice(&src);
        }
        Ok(())
    }
    fn write(&self, blocks: &[Block], start: BlockIdx) -> Result<(), DevErr> {
        let mut st = self.0.borrow_mut();
        let (fail, _) = if st.plan.is_empty() { (false, false) } else { st.plan.remove(0) };
        if fail {
            return Err(DevErr);
        }
        for (i, b) in blocks.iter().enumerate() {
            st.blocks[start.0 as usize + i].copy_from_slice(&b.contents);
        }
        Ok(())
    }
    fn num_blocks(&self) -> Result<BlockCount, DevErr> {
        Ok(BlockCount(self.0.borrow().blocks.len() as u32))
    }
}

fn val(b: &[u8; 512]) -> i64 {
    if b.iter().all(|&x| x == b[0]) {
        b[0] as i64
    } else {
        -1
    }
}

#[derive(Clone, Copy, Debug)]
enum Op {
    Read(u32, bool, bool),
    ReadMut(u32, u8, bool, bool),
    Blank(u32, u8),
    WriteBack(bool),
    WriteBackDup(u32, bool, bool),
}

fn alphabet(nblocks: u32, vals: &[u8]) -> Vec<Op> {
    let mut a = Vec::new();
    for b in 1..=nblocks {
        for &(f, p) in &[(false, false), (true, false), (true, true)] {
            a.push(Op::Read(b, f, p));
            for &v in vals {
                a.push(Op::ReadMut(b, v, f, p));
            }
        }
        for &v in vals {
            a.push(Op::Blank(b, v));
        }
        for &(f1, f2) in &[(false, false), (true, false), (false, true)] {
            a.push(Op::WriteBackDup(b, f1, f2));
        }
    }
    a.push(Op::WriteBack(false));
    a.push(Op::WriteBack(true));
    a
}

fn run_seq(seq: &[Op], nblocks: u32, out: &mut dyn Write, n: &mut u64) {
    let st = Rc::new(RefCell::new(DevState { blocks: (0..=nblocks).map(|b| [b as u8; 512]).collect(), plan: Vec::new() }));
    let mut cache = BlockCache::new(FaultyDev(st.clone()));
    let mut emit = |j: J, out: &mut dyn Write| {
        serde_json::to_writer(&mut *out, &j).unwrap();
        out.write_all(b"\n").unwrap();
    };
    emit(json!({"ev": "Reset", "nblocks": nblocks}), out);
    let devvals = |st: &Rc<RefCell<DevState>>| -> Vec<i64> { st.borrow().blocks[1..].iter().map(val).collect() };
    for op in seq {
        *n += 1;
        match *op {
            Op::Read(b, f, p) => {
                st.borrow_mut().plan = vec![(f, p)];
                let r = catch_unwind(AssertUnwindSafe(|| cache.read(BlockIdx(b)).map(|blk| val(&blk.contents))));
                let (k, v) = match r {
                    Ok(Ok(v)) => ("ok", v),
                    Ok(Err(_)) => ("err", 0),
                    Err(_) => ("panic", 0),
                };
                emit(json!({"ev": "Read", "b": b, "fail": f, "partial": p, "mut": false, "r": k, "val": v, "dev": devvals(&st)}), out);
            }
            Op::ReadMut(b, v, f, p) => {
                st.borrow_mut().plan = vec![(f, p)];
                let mut modified: Option<i64> = None;
                let r = catch_unwind(AssertUnwindSafe(|| {
                    cache.read_mut(BlockIdx(b)).map(|blk| {
                        let before = val(&blk.contents);
                        // a caller changes a part of the block; on a uniform block the abstraction is "the block now holds v"
                        if before >= 0 {
                            blk.contents.fill(v);
                        } else {
                            blk.contents[..128].fill(v);
                        }
                        (before, val(&blk.contents))
                    })
                }));
                let (k, got) = match r {
                    Ok(Ok((before, after))) => {
                        modified = Some(after);
                        ("ok", before)
                    }
                    Ok(Err(_)) => ("err", 0),
                    Err(_) => ("panic", 0),
                };
                emit(json!({"ev": "Read", "b": b, "fail": f, "partial": p, "mut": true, "r": k, "val": got, "dev": devvals(&st)}), out);
                if let Some(after) = modified {
                    emit(json!({"ev": "Modify", "v": v, "r": "ok", "val": after, "dev": devvals(&st)}), out);
                }
            }
            Op::Blank(b, v) => {
                let blk = cache.blank_mut(BlockIdx(b));
                let before = val(&blk.contents);
                blk.contents.fill(v);
                emit(json!({"ev": "Blank", "b": b, "r": "ok", "val": before, "dev": devvals(&st)}), out);
                emit(json!({"ev": "Modify", "v": v, "r": "ok", "val": v as i64, "dev": devvals(&st)}), out);
            }
            Op::WriteBack(f) => {
                st.borrow_mut().plan = vec![(f, false)];
                let r = catch_unwind(AssertUnwindSafe(|| cache.write_back()));
                let k = match r {
                    Ok(Ok(())) => "ok",
                    Ok(Err(_)) => "err",
                    Err(_) => "panic",
                };
                emit(json!({"ev": "WriteBack", "fail": f, "r": k, "val": 0, "dev": devvals(&st)}), out);
            }
            Op::WriteBackDup(d, f1, f2) => {
                st.borrow_mut().plan = vec![(f1, false), (f2, false)];
                let r = catch_unwind(AssertUnwindSafe(|| cache.write_back_with_duplicate(BlockIdx(d))));
                let k = match r {
                    Ok(Ok(())) => "ok",
                    Ok(Err(_)) => "err",
                    Err(_) => "panic",
                };
                emit(json!({"ev": "WriteBackDup", "d": d, "f1": f1, "f2": f2, "r": k, "val": 0, "dev": devvals(&st)}), out);
            }
        }
        st.borrow_mut().plan.clear();
    }
}

pub fn cache_vectors(out: &mut dyn Write, tier: &str, seed: u64) -> J {
    let quick = tier == "quick";
    // silence the default panic hook for the expected "write_back with no read"
    let hook = std::panic::take_hook();
    std::panic::set_hook(Box::new(|_| {}));
    let mut n = 0u64;
    let mut seqs = 0u64;
    let a = alphabet(2, &[7]);
    // every sequence of three calls (two blocks, one value)
    for &x in &a {
        for &y in &a {
            for &z in &a {
                run_seq(&[x, y, z], 2, out, &mut n);
                seqs += 1;
            }
        }
    }
    // longer random sequences over three blocks and two values
    let a3 = alphabet(3, &[7, 8]);
    let mut rng = crate::vals::Rng(seed ^ 0xCAC4E);
    for _ in 0..(if quick { 400 } else { 20000 }) {
        let len = 4 + rng.below(5) as usize;
        let seq: Vec<Op> = (0..len).map(|_| a3[rng.below(a3.len() as u64) as usize]).collect();
        run_seq(&seq, 3, out, &mut n);
        seqs += 1;
    }
    std::panic::set_hook(hook);
    json!({"vectors": n, "sequences": seqs})
}
