//! Scenario runner for the SD side: the real SdCard driver against the simulated card.

use crate::sim::{mkcsd, Card, Kind, Misb, SimDelay, SimSpi};
use embedded_sdmmc::sdcard::{AcquireOpts, CardType, SdCard};
use embedded_sdmmc::{Block, BlockDevice, BlockIdx};
use serde_json::{json, Value as J};
use std::cell::RefCell;
use std::panic::{catch_unwind, AssertUnwindSafe};
use std::rc::Rc;

fn ju(v: &J, k: &str, d: u64) -> u64 {
    v.get(k).and_then(|x| x.as_u64()).unwrap_or(d)
}

fn payload(seed: u64, k: u64) -> [u8; 512] {
    let mut d = [0u8; 512];
    let mut z = seed.wrapping_mul(0x9E37_79B9_7F4A_7C15) ^ k.wrapping_mul(0xBF58_476D_1CE4_E5B9);
    for x in d.iter_mut() {
        z ^= z << 13;
        z ^= z >> 7;
        z ^= z << 17;
        *x = z as u8;
    }
    d
}

fn err_name(e: &embedded_sdmmc::sdcard::Error) -> String {
    let s = format!("{:?}", e);
    s.split('(').next().unwrap().to_string()
}

pub fn run_scenario(sc: &J, out: &mut Vec<J>) {
    let kind = match sc["kind"].as_str().unwrap() {
        "sd1" => Kind::Sd1,
        "sd2" => Kind::Sd2,
        _ => Kind::Sdhc,
    };
    crate::set_log(sc.get("log").and_then(|x| x.as_bool()).unwrap_or(false));
    let crc = sc.get("crc").and_then(|x| x.as_bool()).unwrap_or(true);
    let csdspec = &sc["csd"];
    let ver = ju(csdspec, "ver", if kind == Kind::Sdhc { 1 } else { 0 }) as u32;
    let c_size = ju(csdspec, "c_size", 1000) as u32;
    let mult = ju(csdspec, "mult", 7) as u32;
    let bl = ju(csdspec, "bl", 9) as u32;
    let erase = ju(csdspec, "erase", 1) as u32 & 1;
    let csd = mkcsd(ver, c_size, mult, bl, erase);
    // capacity per the SD specification for the register's own structure version
    let cap_bytes: u64 = if ver == 0 { (c_size as u64 + 1) << (mult + 2 + bl) } else { (c_size as u64 + 1) * 512 * 1024 };
    let (cap_real, cap_rem) = (cap_bytes / 512, cap_bytes % 512);
    let cap_blocks: u64 = cap_real;
    // a register whose fields make no sense for a real card (or a capacity beyond 2^32 - 1 blocks): the card answers with it all
    // the same; the reported capacity is still judged (in bytes exactly, in blocks up to the largest count that fits), and
    // the simulated card gets a small memory
    let weird = csdspec.get("weird").and_then(|x| x.as_bool()).unwrap_or(false);
    let cap_blocks: u64 = if weird { 1000 } else { cap_blocks };
    let nblocks = cap_blocks.min(u32::MAX as u64) as u32;
    let card = Rc::new(RefCell::new(Card::new(kind, nblocks, csd)));
    {
        let mut c = card.borrow_mut();
        let t = &sc["timing"];
        c.resp_delay = ju(t, "resp", 1) as u32;
        c.tok_delay = ju(t, "tok", 2) as u32;
        c.busy_len = ju(t, "busy", 3);
        c.acmd41_need = ju(t, "acmd41", 1) as u32;
        c.acmd41_left = c.acmd41_need;
        c.random_timing = t.get("random").and_then(|x| x.as_bool()).unwrap_or(false);
        c.rng = ju(sc, "seed", 1);
        c.budget = ju(sc, "budget", 3_000_000);
        c.oor_quirk = sc.get("oor").and_then(|x| x.as_bool()).unwrap_or(false);
        if let Some(ms) = sc.get("misb").and_then(|x| x.as_array()) {
            for m in ms {
                c.misb.push(Misb { when: m["when"].as_str().unwrap().to_string(), nth: ju(m, "nth", 1), what: m["what"].as_str().unwrap().to_string(),
                    arg: m.get("arg").and_then(|x| x.as_i64()).unwrap_or(0), seen: 0, fired: false });
            }
        }
    }
    let delays = Rc::new(RefCell::new(0u64));
    let opts = AcquireOpts { use_crc: crc, acquire_retries: ju(sc, "retries", 50) as u32 };
    let mut sd = SdCard::new_with_options(SimSpi(card.clone()), SimDelay(delays.clone()), opts);
    out.push(json!({"ev": "Reset", "id": sc["id"], "kind": sc["kind"], "crc": crc, "csd": {"ver": ver, "c_size": c_size, "mult": mult, "bl": bl, "erase": erase}, "weird": weird, "retries": ju(sc, "retries", 50), "oor": sc.get("oor").and_then(|x| x.as_bool()).unwrap_or(false),
        "cap": [cap_real >> 16, cap_real & 0xFFFF], "caprem": cap_rem, "nblocks": nblocks, "acmd41": card.borrow().acmd41_need,
        "budget": [card.borrow().budget >> 16, card.borrow().budget & 0xFFFF]}));
    let seed = ju(sc, "seed", 1);
    let mut wr_counter = 0u64;
    for op in sc["ops"].as_array().unwrap() {
        let name = op["op"].as_str().unwrap();
        // scenario-side controls (not driver calls)
        match name {
            "kill" => {
                let mut c = card.borrow_mut();
                let at = c.total_bytes + 1 + ju(op, "after", 0);
                c.dead_from = Some(at);
                c.dead_val = ju(op, "val", 255) as u8;
                out.push(json!({"ev": "Ctl", "what": "kill", "val": c.dead_val}));
                continue;
            }
            "revive" => {
                let mut c = card.borrow_mut();
                c.dead_from = None;
                c.powered = false;
                c.ready = false;
                c.idle = false;
                c.busy_left = 0;
                c.busy_pending = 0;
                c.outq.clear();
                out.push(json!({"ev": "Ctl", "what": "revive", "val": 0}));
                continue;
            }
            "takeover" => {
                // another driver object takes the initialised card over (mark_card_as_init): nothing happens on the bus, the
                // card is what it was; every property of the calls that follow is the same as for the object that initialised it
                if let Some(ct) = sd.get_card_type() {
                    let opts2 = AcquireOpts { use_crc: crc, acquire_retries: ju(sc, "retries", 50) as u32 };
                    let nsd = SdCard::new_with_options(SimSpi(card.clone()), SimDelay(delays.clone()), opts2);
                    unsafe { nsd.mark_card_as_init(ct) };
                    sd = nsd;
                }
                continue;
            }
            "spierr" => {
                let mut c = card.borrow_mut();
                c.spi_error_at = Some(c.total_bytes + 1 + ju(op, "after", 0));
                continue;
            }
            _ => {}
        }
        let blk = ju(op, "blk", 0) as u32;
        let n = ju(op, "n", 1) as usize;
        card.borrow_mut().call_bytes = 0;
        let mut pays: Vec<i64> = Vec::new();
        let mut blocks: Vec<Block> = vec![Block::new(); n];
        if name == "read" {
            // what the caller's buffers held before must not reach the bus: fill them with stop-transmission
            // frames (CMD12 with a valid CRC-7) - a driver that clocks the buffer out ends the transfer
            for b in blocks.iter_mut() {
                for (i, x) in b.contents.iter_mut().enumerate() {
                    *x = [0x4C, 0x00, 0x00, 0x00, 0x00, 0x61, 0xFF, 0xFF][i % 8];
                }
            }
        }
        if name == "write" {
            for b in blocks.iter_mut() {
                wr_counter += 1;
                b.contents = payload(seed, wr_counter);
                pays.push(card.borrow_mut().register_payload(&b.contents));
            }
        }
        out.push(json!({"ev": "Call", "op": name, "blk": [blk >> 16, blk & 0xFFFF], "n": n, "pay": pays}));
        let r = catch_unwind(AssertUnwindSafe(|| -> J {
            match name {
                "read" => match sd.read(&mut blocks, BlockIdx(blk)) {
                    Ok(()) => {
                        let mut ids = Vec::new();
                        let zeros: Vec<bool> = blocks.iter().map(|b| b.contents.iter().all(|&x| x == 0)).collect();
                        for (i, b) in blocks.iter().enumerate() {
                            // what the card's memory holds there, by id (registered on demand)
                            let mut c = card.borrow_mut();
                            let bi = blk.wrapping_add(i as u32);
                            let id = if b.contents == crate::sim::default_block(bi) { -2 - (bi as i64 & 0x3FFF_FFFF) } else { c.pay_id(&b.contents) };
                            ids.push(id);
                        }
                        json!({"k": "ok", "e": "", "pay": ids, "val": [0, 0], "zeros": zeros})
                    }
                    Err(e) => json!({"k": "err", "e": err_name(&e), "pay": [], "val": [0, 0]}),
                },
                "write" => match sd.write(&blocks, BlockIdx(blk)) {
                    Ok(()) => json!({"k": "ok", "e": "", "pay": [], "val": [0, 0]}),
                    Err(e) => json!({"k": "err", "e": err_name(&e), "pay": [], "val": [0, 0]}),
                },
                "num_blocks" => match sd.num_blocks() {
                    Ok(c) => json!({"k": "ok", "e": "", "pay": [], "val": [c.0 >> 16, c.0 & 0xFFFF]}),
                    Err(e) => json!({"k": "err", "e": err_name(&e), "pay": [], "val": [0, 0]}),
                },
                "num_bytes" => match sd.num_bytes() {
                    Ok(c) => json!({"k": "ok", "e": "", "pay": [], "val": [(c / 512) >> 16, (c / 512) & 0xFFFF], "rem": c % 512}),
                    Err(e) => json!({"k": "err", "e": err_name(&e), "pay": [], "val": [0, 0]}),
                },
                "erase_en" => match sd.erase_single_block_enabled() {
                    Ok(b) => json!({"k": "ok", "e": "", "pay": [], "val": [0, b as u32]}),
                    Err(e) => json!({"k": "err", "e": err_name(&e), "pay": [], "val": [0, 0]}),
                },
                "card_type" => match sd.get_card_type() {
                    Some(CardType::SD1) => json!({"k": "ok", "e": "sd1", "pay": [], "val": [0, 0]}),
                    Some(CardType::SD2) => json!({"k": "ok", "e": "sd2", "pay": [], "val": [0, 0]}),
                    Some(CardType::SDHC) => json!({"k": "ok", "e": "sdhc", "pay": [], "val": [0, 0]}),
                    None => json!({"k": "err", "e": "None", "pay": [], "val": [0, 0]}),
                },
                "mark_uninit" => {
                    sd.mark_card_uninit();
                    json!({"k": "ok", "e": "", "pay": [], "val": [0, 0]})
                }
                _ => panic!("unknown sd op {}", name),
            }
        }));
        let mut c = card.borrow_mut();
        c.flush_idle_pub();
        let mut evs: Vec<J> = std::mem::take(&mut c.log);
        // a call that produces more bus events than any bounded call can (the longest legal one - a card that never becomes
        // ready - makes about 40 000) has left every bound behind: keep the beginning, report it as over the budget
        let truncated = evs.len() > 120_000;
        if truncated {
            evs.truncate(120_000);
        }
        out.extend(evs);
        let over = c.over_budget || truncated;
        c.over_budget = false;
        let cb = c.call_bytes;
        match r {
            Ok(mut j) => {
                j["ev"] = json!("Ret");
                j["op"] = json!(name);
                j["bytes"] = json!([cb >> 16, cb & 0xFFFF]);
                j["over"] = json!(over);
                if j.get("rem").is_none() {
                    j["rem"] = json!(0);
                }
                out.push(j);
            }
            Err(p) => {
                out.push(json!({"ev": "Ret", "op": name, "k": "panic", "e": crate::fs::panic_msg(&p), "pay": [], "val": [0, 0], "bytes": [cb >> 16, cb & 0xFFFF], "over": over, "rem": 0}));
                break;
            }
        }
        // register unknown read payloads lazily? no: ids of blocks never written are resolved by content below
    }
    // final memory image of the card for the blocks the scenario touched
    let c = card.borrow();
    let mut mem: Vec<J> = Vec::new();
    let mut keys: Vec<&u32> = c.mem.keys().collect();
    keys.sort();
    for k in keys {
        let id = c.pay_ids.get(&c.mem[k][..].to_vec()).copied().unwrap_or(-1);
        mem.push(json!({"b": [k >> 16, k & 0xFFFF], "pay": id}));
    }
    out.push(json!({"ev": "End", "mem": mem, "delays": [*delays.borrow() >> 16, *delays.borrow() & 0xFFFF]}));
}
