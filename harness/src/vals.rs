//! Unit/value abstraction of file data, clock <-> FAT timestamp mapping, small PRNG.
//!
//! A 512-byte block is cut into `upb` units at the byte boundaries `bounds` (bounds[0] = 0).
//! Every unit ever written by the harness (or placed by mkfs) carries a globally unique
//! value id v >= 1; its bytes are a keyed function of (v, byte index) and are made injective
//! per unit position so that decoding bytes -> v never guesses.

use std::collections::HashMap;

pub struct Rng(pub u64);
impl Rng {
    pub fn next(&mut self) -> u64 {
        self.0 = self.0.wrapping_add(0x9E37_79B9_7F4A_7C15);
        let mut z = self.0;
        z = (z ^ (z >> 30)).wrapping_mul(0xBF58_476D_1CE4_E5B9);
        z = (z ^ (z >> 27)).wrapping_mul(0x94D0_49BB_1331_11EB);
        z ^ (z >> 31)
    }
    pub fn below(&mut self, n: u64) -> u64 {
        if n == 0 {
            0
        } else {
            self.next() % n
        }
    }
    pub fn chance(&mut self, num: u64, den: u64) -> bool {
        self.below(den) < num
    }
    pub fn pick<'a, T>(&mut self, v: &'a [T]) -> &'a T {
        &v[self.below(v.len() as u64) as usize]
    }
}

pub struct Vals {
    pub bounds: Vec<usize>, // len = upb, bounds[0] = 0, strictly increasing, < 512
    pub next: u32,
    map: Vec<HashMap<Vec<u8>, u32>>,
    salts: HashMap<u32, u32>,
}

fn prf(v: u32, salt: u32, j: usize, i: usize) -> u8 {
    let mut z = (v as u64) << 32 | (salt as u64) << 20 | (j as u64) << 10 | i as u64;
    z = z.wrapping_add(0x9E37_79B9_7F4A_7C15);
    z = (z ^ (z >> 30)).wrapping_mul(0xBF58_476D_1CE4_E5B9);
    z = (z ^ (z >> 27)).wrapping_mul(0x94D0_49BB_1331_11EB);
    let b = (z ^ (z >> 31)) as u8;
    b
}

impl Vals {
    pub fn new(bounds: Vec<usize>) -> Vals {
        assert!(!bounds.is_empty() && bounds[0] == 0);
        for w in bounds.windows(2) {
            assert!(w[1] >= w[0] + 3, "units must be at least 3 bytes");
        }
        assert!(512 - bounds[bounds.len() - 1] >= 3);
        let n = bounds.len();
        Vals { bounds, next: 1, map: vec![HashMap::new(); n], salts: HashMap::new() }
    }
    pub fn upb(&self) -> usize {
        self.bounds.len()
    }
    pub fn unit_len(&self, j: usize) -> usize {
        let e = if j + 1 < self.bounds.len() { self.bounds[j + 1] } else { 512 };
        e - self.bounds[j]
    }
    /// unit index -> byte offset
    pub fn u2b(&self, u: u64) -> u64 {
        let n = self.upb() as u64;
        (u / n) * 512 + self.bounds[(u % n) as usize] as u64
    }
    /// byte offset -> unit index if on a unit boundary
    pub fn b2u(&self, b: u64) -> Option<u64> {
        let n = self.upb() as u64;
        let r = (b % 512) as usize;
        self.bounds.iter().position(|&x| x == r).map(|j| (b / 512) * n + j as u64)
    }
    /// allocate a fresh value for unit position j (= file unit index mod upb) and return its bytes
    pub fn fresh(&mut self, j: usize) -> (u32, Vec<u8>) {
        let v = self.next;
        self.next += 1;
        let l = self.unit_len(j);
        let mut salt = 0u32;
        loop {
            let bytes: Vec<u8> = (0..l).map(|i| prf(v, salt, j, i)).collect();
            let zero = bytes.iter().all(|&b| b == 0);
            if !zero && !self.map[j].contains_key(&bytes) && !bytes.starts_with(b"STALE") {
                self.map[j].insert(bytes.clone(), v);
                self.salts.insert(v, salt);
                return (v, bytes);
            }
            salt += 1;
        }
    }
    /// decode the bytes of unit position j of a block: v>0 value, 0 all-zero, -1 garbage
    pub fn decode(&self, j: usize, bytes: &[u8]) -> i64 {
        if bytes.iter().all(|&b| b == 0) {
            return 0;
        }
        match self.map[j].get(bytes) {
            Some(&v) => v as i64,
            None => -1,
        }
    }
    pub fn unit_range(&self, j: usize) -> (usize, usize) {
        let s = self.bounds[j];
        (s, s + self.unit_len(j))
    }
}

// ---------------------------------------------------------------- clock mapping
// clock index c  <->  2000-01-01 00:00:00 + 3*c seconds (odd and even seconds alternate)

pub const CLOCK_STEP: u32 = 3;

pub fn clock_to_calendar(c: u32) -> (u16, u8, u8, u8, u8, u8) {
    let secs = c * CLOCK_STEP;
    let day = secs / 86400;
    assert!(day < 31, "clock out of range");
    let r = secs % 86400;
    (2000, 1, (day + 1) as u8, (r / 3600) as u8, ((r % 3600) / 60) as u8, (r % 60) as u8)
}

/// Independent FAT encoder (Microsoft layout): returns (date, time)
pub fn calendar_to_fat(y: u16, mo: u8, d: u8, h: u8, mi: u8, s: u8) -> (u16, u16) {
    let date = ((y - 1980) << 9) | ((mo as u16) << 5) | d as u16;
    let time = ((h as u16) << 11) | ((mi as u16) << 5) | (s as u16 / 2);
    (date, time)
}

pub fn clock_to_fat(c: u32) -> (u16, u16) {
    let (y, mo, d, h, mi, s) = clock_to_calendar(c);
    calendar_to_fat(y, mo, d, h, mi, s)
}

/// raw FAT (date,time) -> clock index, or -1 if it is not one of ours
pub fn fat_to_clock(date: u16, time: u16) -> i64 {
    let y = 1980 + (date >> 9);
    let mo = (date >> 5) & 0xF;
    let d = date & 0x1F;
    if y != 2000 || mo != 1 || d == 0 {
        return -1;
    }
    let h = (time >> 11) as u32;
    let mi = ((time >> 5) & 0x3F) as u32;
    let s = ((time & 0x1F) * 2) as u32;
    if h > 23 || mi > 59 || s > 58 {
        return -1;
    }
    let secs = (d as u32 - 1) * 86400 + h * 3600 + mi * 60 + s;
    let c = (secs + 2) / 3;
    if (c * 3) & !1 == secs {
        c as i64
    } else {
        -1
    }
}

pub fn hex(b: &[u8]) -> String {
    let mut s = String::with_capacity(b.len() * 2);
    for x in b {
        s.push_str(&format!("{:02x}", x));
    }
    s
}

pub fn unhex(s: &str) -> Vec<u8> {
    (0..s.len() / 2).map(|i| u8::from_str_radix(&s[i * 2..i * 2 + 2], 16).unwrap()).collect()
}

/// 11-byte name from a JSON string: either 11 Latin-1 chars or "x:" + 22 hex digits
pub fn name11(s: &str) -> [u8; 11] {
    let mut out = [b' '; 11];
    if let Some(h) = s.strip_prefix("x:") {
        let v = unhex(h);
        out.copy_from_slice(&v[..11]);
    } else {
        let cs: Vec<char> = s.chars().collect();
        assert!(cs.len() == 11, "name must have 11 chars: {:?}", s);
        for (i, c) in cs.iter().enumerate() {
            out[i] = *c as u32 as u8;
        }
    }
    out
}
