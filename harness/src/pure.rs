//! Drivers for the pure-function properties (C15, C17, C18, C19): emit NDJSON vectors with the
//! library's answers, to be validated by TLC against the transcribed TLA+ definitions, and run the
//! big native loops against references that those same vectors pin to the TLA+ definitions.

use crate::sim::{crc16_ref, crc7_ref};
use crate::vals::Rng;
use embedded_sdmmc::sdcard::proto::{crc16, crc7};
use serde_json::{json, Value as J};
use std::io::Write;

/// the library's answers for the message placed at each of the four byte alignments (the answer must not depend on
/// where the slice lies in memory); if they differ among themselves, one that differs from the first is reported
fn crc_at_alignments(m: &[u8]) -> (u8, u16) {
    let mut buf = vec![0u8; m.len() + 8];
    let base = (4 - (buf.as_ptr() as usize % 4)) % 4;
    let mut first: Option<(u8, u16)> = None;
    let mut odd: Option<(u8, u16)> = None;
    for k in 0..4 {
        let o = base + k;
        buf[o..o + m.len()].copy_from_slice(m);
        let r = (crc7(&buf[o..o + m.len()]), crc16(&buf[o..o + m.len()]));
        match first {
            None => first = Some(r),
            Some(f) if f != r && odd.is_none() => odd = Some(r),
            _ => {}
        }
    }
    odd.or(first).unwrap()
}

fn crc_rec(m: &[u8]) -> J {
    let (c7, c16) = crc_at_alignments(m);
    json!({"ev": "Crc", "m": m, "c7": c7, "c16": c16, "r7": crc7_ref(m), "r16": crc16_ref(m)})
}

pub fn crc_vectors(out: &mut dyn Write, tier: &str, seed: u64) -> J {
    let quick = tier == "quick";
    let mut n = 0u64;
    let mut emit = |j: J, out: &mut dyn Write| {
        serde_json::to_writer(&mut *out, &j).unwrap();
        out.write_all(b"\n").unwrap();
    };
    emit(crc_rec(&[]), out);
    n += 1;
    for a in 0..=255u8 {
        emit(crc_rec(&[a]), out);
        n += 1;
    }
    // all two-byte messages (quick: a quarter of them, chosen by a stride coprime to 65536)
    let stride = if quick { 5 } else { 1 };
    let mut k = 0u32;
    while k < 65536 {
        emit(crc_rec(&[(k >> 8) as u8, k as u8]), out);
        n += 1;
        k += stride;
    }
    for len in [5usize, 16, 512] {
        let step = if len == 512 && quick { 16 } else { 1 };
        let mut bit = 0;
        while bit < len * 8 {
            let mut m = vec![0u8; len];
            m[bit / 8] = 0x80 >> (bit % 8);
            emit(crc_rec(&m), out);
            n += 1;
            bit += step;
        }
        let mut m = vec![0u8; len];
        m[len - 1] = 1;
        emit(crc_rec(&m), out);
        n += 1;
    }
    let mut rng = Rng(seed ^ 0xC19);
    for _ in 0..(if quick { 16 } else { 200 }) {
        let len = 1 + rng.below(2048) as usize;
        let m: Vec<u8> = (0..len).map(|_| rng.next() as u8).collect();
        emit(crc_rec(&m), out);
        n += 1;
    }
    // long messages (the remainder only depends on the polynomial, whatever way an implementation cuts the message up):
    // lengths around the powers of two up to 64 KiB and beyond the period of x modulo the CRC-16 polynomial (32 767 bits)
    let mut longs: Vec<usize> = vec![4095, 4096, 4097, 8191, 8192, 16382, 16383, 16384, 32767, 32768, 65535, 65536, 70001];
    if quick {
        longs = vec![4097, 8192, 16383, 16384, 32768, 65537];
    }
    for len in longs {
        let m: Vec<u8> = (0..len).map(|_| rng.next() as u8).collect();
        emit(crc_rec(&m), out);
        n += 1;
        let mut z = vec![0u8; len];
        z[0] = 0x80;
        emit(crc_rec(&z), out);
        n += 1;
    }
    // a record followed by its own CRC-16 and zero padding (the remainder is 0 from there on): every record length 0..=40
    // with 0..=16 padding bytes
    for len in 0..=40usize {
        let m: Vec<u8> = (0..len).map(|_| rng.next() as u8).collect();
        let c = crc16_ref(&m).to_be_bytes();
        for pad in 0..=16usize {
            if quick && pad % 3 == 1 && len % 2 == 1 {
                continue;
            }
            let mut x = m.clone();
            x.extend_from_slice(&c);
            x.extend(std::iter::repeat(0u8).take(pad));
            emit(crc_rec(&x), out);
            n += 1;
        }
    }
    // native: every three-byte message (= every (running remainder, next byte) pair), library vs reference
    let mut mism: Vec<J> = Vec::new();
    let mut cnt = 0u64;
    for a in 0..=255u8 {
        for b in 0..=255u8 {
            for c in 0..=255u8 {
                let m = [a, b, c];
                cnt += 1;
                if (crc16(&m) != crc16_ref(&m) || crc7(&m) != crc7_ref(&m)) && mism.len() < 5 {
                    mism.push(json!(m));
                }
            }
        }
    }
    // append-checksum => zero, and length-extension consistency, on random messages
    let mut zero_fail = 0u64;
    for _ in 0..(if quick { 2000 } else { 50000 }) {
        let len = rng.below(600) as usize;
        let mut m: Vec<u8> = (0..len).map(|_| rng.next() as u8).collect();
        let c = crc16(&m);
        m.extend_from_slice(&c.to_be_bytes());
        // ... and with zero padding behind the checksum the remainder stays 0
        let mut padded = m.clone();
        padded.extend(std::iter::repeat(0u8).take(rng.below(24) as usize));
        if crc16(&m) != 0 || crc_at_alignments(&m).1 != 0 || crc16(&padded) != 0 || crc16(&padded) != crc16_ref(&padded) {
            zero_fail += 1;
            if mism.len() < 5 {
                mism.push(json!(m));
            }
        }
        cnt += 1;
    }
    json!({"vectors": n, "native": cnt, "mismatch": mism, "zero_fail": zero_fail})
}

// ------------------------------------------------------------------------------------------- C18
use embedded_sdmmc::fat::{FatType, OnDiskDirEntry};
use embedded_sdmmc::{BlockIdx, DirEntry, ShortFileName, Timestamp};
use std::panic::{catch_unwind, AssertUnwindSafe};

fn ts_fields(t: &Timestamp) -> Vec<u32> {
    vec![t.year_since_1970 as u32, t.zero_indexed_month as u32, t.zero_indexed_day as u32, t.hours as u32, t.minutes as u32, t.seconds as u32]
}

pub fn cluster_u32(c: &embedded_sdmmc::ClusterId) -> u32 {
    let s = format!("{:?}", c);
    let inner = s.trim_start_matches("ClusterId(").trim_end_matches(')').trim();
    match inner {
        "ROOT" => 0xFFFF_FFFC,
        "EMPTY" => 0,
        "EOF" => 0xFFFF_FFFF,
        "BAD" => 0xFFFF_FFF7,
        "INVALID" => 0xFFFF_FFF6,
        x => u32::from_str_radix(x, 16).unwrap(),
    }
}

fn de_fields(de: &DirEntry) -> J {
    let a = (de.attributes.is_read_only() as u8)
        | (de.attributes.is_hidden() as u8) << 1
        | (de.attributes.is_system() as u8) << 2
        | (de.attributes.is_volume() as u8) << 3
        | (de.attributes.is_directory() as u8) << 4
        | (de.attributes.is_archive() as u8) << 5;
    let c = cluster_u32(&de.cluster);
    json!({"name": crate::fs::sfn_bytes(&de.name).to_vec(), "attr": a, "chi": c >> 16, "clo": c & 0xFFFF,
           "shi": de.size >> 16, "slo": de.size & 0xFFFF, "ct": ts_fields(&de.ctime), "mt": ts_fields(&de.mtime)})
}

fn datetime_rec(d: u16, t: u16) -> J {
    let r = catch_unwind(AssertUnwindSafe(|| {
        let ts = Timestamp::from_fat(d, t);
        let b = ts.serialize_to_fat();
        (ts_fields(&ts), u16::from_le_bytes([b[2], b[3]]), u16::from_le_bytes([b[0], b[1]]))
    }));
    match r {
        Ok((f, rd, rt)) => json!({"ev": "DateTime", "date": d, "time": t, "panic": false, "ts": f, "redate": rd, "retime": rt}),
        Err(_) => json!({"ev": "DateTime", "date": d, "time": t, "panic": true, "ts": [], "redate": 0, "retime": 0}),
    }
}

fn cal_rec(y: u16, mo: u8, d: u8, h: u8, mi: u8, s: u8) -> J {
    match Timestamp::from_calendar(y, mo, d, h, mi, s) {
        Ok(ts) => {
            let b = ts.serialize_to_fat();
            let (date, time) = (u16::from_le_bytes([b[2], b[3]]), u16::from_le_bytes([b[0], b[1]]));
            let back = Timestamp::from_fat(date, time);
            json!({"ev": "Cal", "cal": [y, mo, d, h, mi, s], "ok": true, "date": date, "time": time, "back": ts_fields(&back)})
        }
        Err(_) => json!({"ev": "Cal", "cal": [y, mo, d, h, mi, s], "ok": false, "date": 0, "time": 0, "back": []}),
    }
}

fn slot_rec(raw: &[u8; 32], fat32: bool) -> J {
    let ft = if fat32 { FatType::Fat32 } else { FatType::Fat16 };
    let r = catch_unwind(AssertUnwindSafe(|| {
        let de = OnDiskDirEntry::new(&raw[..]).get_entry(ft, BlockIdx(77), 96);
        let enc = de.verif_serialize(fat32);
        let de2 = OnDiskDirEntry::new(&enc[..]).get_entry(ft, BlockIdx(77), 96);
        (de_fields(&de), enc.to_vec(), de_fields(&de2), de.entry_block.0 == 77 && de.entry_offset == 96)
    }));
    match r {
        Ok((d, enc, d2, posok)) => json!({"ev": "Slot", "fat32": fat32, "raw": raw.to_vec(), "panic": !posok, "dec": d, "enc": enc, "dec2": d2}),
        Err(_) => json!({"ev": "Slot", "fat32": fat32, "raw": raw.to_vec(), "panic": true, "dec": {}, "enc": [], "dec2": {}}),
    }
}

fn sfn_rec(s: &str) -> J {
    let cps: Vec<u32> = s.chars().map(|c| c as u32).collect();
    let r = catch_unwind(AssertUnwindSafe(|| match ShortFileName::create_from_str(s) {
        Ok(n) => {
            let b = crate::fs::sfn_bytes(&n);
            let shown = format!("{}", n);
            let re: Vec<u8> = ShortFileName::create_from_str(&shown).map(|x| crate::fs::sfn_bytes(&x).to_vec()).unwrap_or_default();
            (true, b.to_vec(), re)
        }
        Err(_) => (false, vec![], vec![]),
    }));
    // the way every call of the API takes a name: the ToShortFileName conversion of a &str
    let t = catch_unwind(AssertUnwindSafe(|| {
        use embedded_sdmmc::filesystem::ToShortFileName;
        match s.to_short_filename() {
            Ok(n) => (true, crate::fs::sfn_bytes(&n).to_vec()),
            Err(_) => (false, vec![]),
        }
    }));
    let (tpanic, tok, tname) = match t {
        Ok((o, n)) => (false, o, n),
        Err(_) => (true, false, vec![]),
    };
    match r {
        Ok((ok, name, re)) => json!({"ev": "Sfn", "s": cps, "panic": tpanic, "ok": ok, "name": name, "reparse": re, "tok": tok, "tname": tname}),
        Err(_) => json!({"ev": "Sfn", "s": cps, "panic": true, "ok": false, "name": [], "reparse": [], "tok": tok, "tname": tname}),
    }
}

pub fn codec_vectors(out: &mut dyn Write, tier: &str, seed: u64) -> J {
    let quick = tier == "quick";
    let mut n = 0u64;
    let mut emit = |j: J, out: &mut dyn Write, n: &mut u64| {
        serde_json::to_writer(&mut *out, &j).unwrap();
        out.write_all(b"\n").unwrap();
        *n += 1;
    };
    let mut rng = Rng(seed ^ 0xC18);
    // every date word and every time word (the two fields are independent in the layout)
    for d in 0..=65535u16 {
        let t = ((d % 24) << 11) | ((d % 60) << 5) | (d % 30);
        emit(datetime_rec(d, t), out, &mut n);
    }
    for t in 0..=65535u16 {
        let d = (((t % 128) as u16) << 9) | ((1 + t % 12) << 5) | (1 + t % 31);
        emit(datetime_rec(d, t), out, &mut n);
    }
    // calendar boundaries
    for &y in &[1980u16, 1981, 1999, 2000, 2037, 2038, 2099, 2100, 2106, 2107] {
        for &mo in &[1u8, 2, 6, 12] {
            for &d in &[1u8, 2, 28, 29, 30, 31] {
                for &(h, mi, s) in &[(0u8, 0u8, 0u8), (23, 59, 59), (12, 30, 1), (12, 30, 58), (0, 0, 1), (1, 1, 2)] {
                    emit(cal_rec(y, mo, d, h, mi, s), out, &mut n);
                }
            }
        }
    }
    // directory entries over boundary values of each field
    let names: [&[u8; 11]; 7] = [b"README  TXT", b".          ", b"..         ", b"\xE5LD      \xFF\x80", b"A~1     Z  ", b"\x05LD     DAT", b"\x05          "];
    let clusters: [(u16, u16); 8] = [(0, 0), (0, 1), (0, 2), (0, 0xFFFF), (0x0FFF, 0xFFFF), (0xFFFF, 0xFFFF), (1, 0), (0x1234, 0x5678)];
    let sizes: [u32; 6] = [0, 1, 511, 512, 0x8000_0000, 0xFFFF_FFFF];
    let words: [(u16, u16); 6] = [(0x0021, 0x0000), (0xFF9F, 0xBF7D), (0x5121, 0x6000), (0x0000, 0x0000), (0xFFFF, 0xFFFF), (0x2A5A, 0x8C31)];
    let mut k = 0usize;
    for attr in 0..=255u8 {
        for fat32 in [false, true] {
            for ci in 0..clusters.len() {
                let mut raw = [0u8; 32];
                raw[..11].copy_from_slice(names[k % names.len()]);
                raw[11] = attr;
                raw[12] = 0x18;
                raw[13] = (k % 200) as u8;
                let (cd, ct) = words[k % words.len()];
                let (wd, wt) = words[(k / 3) % words.len()];
                raw[14..16].copy_from_slice(&ct.to_le_bytes());
                raw[16..18].copy_from_slice(&cd.to_le_bytes());
                raw[18..20].copy_from_slice(&wd.to_le_bytes());
                raw[20..22].copy_from_slice(&clusters[ci].0.to_le_bytes());
                raw[22..24].copy_from_slice(&wt.to_le_bytes());
                raw[24..26].copy_from_slice(&wd.to_le_bytes());
                raw[26..28].copy_from_slice(&clusters[ci].1.to_le_bytes());
                raw[28..32].copy_from_slice(&sizes[k % sizes.len()].to_le_bytes());
                emit(slot_rec(&raw, fat32), out, &mut n);
                k += 1;
            }
        }
    }
    for _ in 0..(if quick { 1500 } else { 40000 }) {
        let mut raw = [0u8; 32];
        for b in raw.iter_mut() {
            *b = rng.next() as u8;
        }
        if raw[0] == 0 {
            raw[0] = b'X';
        }
        emit(slot_rec(&raw, rng.chance(1, 2)), out, &mut n);
    }
    // 8.3 names: every string up to length 4 (5 in thorough) over one character of every class
    let alphabet: Vec<char> = vec!['A', 'b', '7', '.', ' ', '*', '+', '\u{1}', '\u{e9}', '\u{e5}', '\u{142}', '~'];
    let maxlen = if quick { 4 } else { 5 };
    let mut cur: Vec<usize> = Vec::new();
    loop {
        let s: String = cur.iter().map(|&i| alphabet[i]).collect();
        emit(sfn_rec(&s), out, &mut n);
        // next string in length-lexicographic order
        let mut i = cur.len();
        loop {
            if i == 0 {
                cur = vec![0; cur.len() + 1];
                break;
            }
            i -= 1;
            if cur[i] + 1 < alphabet.len() {
                cur[i] += 1;
                for x in cur[i + 1..].iter_mut() {
                    *x = 0;
                }
                break;
            }
        }
        if cur.len() > maxlen {
            break;
        }
    }
    // every character (all of ISO-8859-1 and the first code points beyond it) in every position class
    for cp in 0u32..=0x180 {
        if let Some(c) = char::from_u32(cp) {
            for s in [format!("{}", c), format!("A{}", c), format!("AB.{}", c), format!("{}BCDEFGH.TXT", c), format!("ABCDEFG{}.TX{}", c, c)] {
                emit(sfn_rec(&s), out, &mut n);
            }
        }
    }
    // characters beyond the basic plane whose low 16 bits look like ISO-8859-1 (U+10041, U+200E9, ...), and scalars from everywhere
    for plane in 1u32..=0x10 {
        for low in [0x41u32, 0x61, 0x7E, 0xE9, 0xFF, 0x2E, 0x20, 0x00] {
            if let Some(c) = char::from_u32((plane << 16) | low) {
                for st in [format!("{}", c), format!("A{}.TXT", c), format!("AB.{}", c), format!("{}{}", c, c)] {
                    emit(sfn_rec(&st), out, &mut n);
                }
            }
        }
    }
    for _ in 0..(if quick { 300 } else { 20000 }) {
        if let Some(c) = char::from_u32(rng.next() as u32 % 0x11_0000) {
            emit(sfn_rec(&format!("X{}", c)), out, &mut n);
        }
    }
    // full 8.3 names made of upper-half characters (two UTF-8 bytes each): every mix of ASCII / upper half over the 11 places
    for mask in 0u32..2048 {
        if quick && mask % 5 != 0 && mask != 2047 && mask.count_ones() < 10 {
            continue;
        }
        let mut st = String::new();
        for i in 0..11 {
            if i == 8 {
                st.push('.');
            }
            st.push(if mask & (1 << i) != 0 { char::from_u32(0xC0 + i as u32).unwrap() } else { (b'A' + i as u8) as char });
        }
        emit(sfn_rec(&st), out, &mut n);
    }
    // every pair of characters of the upper half of ISO-8859-1 next to each other (bytes that happen to form UTF-8 sequences)
    for a in 0x80u32..=0xFF {
        for b in 0x80u32..=0xFF {
            let (ca, cb) = (char::from_u32(a).unwrap(), char::from_u32(b).unwrap());
            emit(sfn_rec(&format!("{}{}", ca, cb)), out, &mut n);
            if !quick || (a + b) % 7 == 0 {
                emit(sfn_rec(&format!("A{}{}.T", ca, cb)), out, &mut n);
                emit(sfn_rec(&format!("AB.{}{}", ca, cb)), out, &mut n);
                emit(sfn_rec(&format!("{}{}{}", ca, cb, ca)), out, &mut n);
            }
        }
    }
    // structured longer names (up to 13 characters): every base length 0..=9 with every extension length 0..=4
    for bl in 0..=9usize {
        for el in 0..=4usize {
            for variant in 0..6 {
                let mut s = String::new();
                for i in 0..bl {
                    s.push(match variant {
                        1 => 'q',
                        2 if i == bl - 1 => '\u{e5}',
                        3 if i == 0 => '\u{e5}',
                        4 if i == bl / 2 => ' ',
                        _ => (b'A' + (i % 26) as u8) as char,
                    });
                }
                if el > 0 || variant == 5 {
                    s.push('.');
                }
                for i in 0..el {
                    s.push(match variant {
                        1 => 'x',
                        _ => (b'0' + (i % 10) as u8) as char,
                    });
                }
                emit(sfn_rec(&s), out, &mut n);
            }
        }
    }
    for s in ["A..B", "A...B", "AB..", "..A", ".A", "A.B.C", "ABCDEFGH.TXT.", "ABCDEFGH..TXT", "A.B.", "....", "...", "\u{7f}", "A\u{7f}.B", "a.B", "\u{ff}.\u{fe}", "\u{100}", "A|B", "A[B]", "x;y", "x=y", "x,y", "x:y", "x<y", "x>y", "x?y", "x/y", "x\\y", "x\"y"] {
        emit(sfn_rec(s), out, &mut n);
    }
    // native: all 2^32 (date,time) pairs in thorough, a seeded 2^24 sample in quick, against the transliteration
    // of Codec.tla (decode-then-encode is the identity on representable words)
    let mut bad: Vec<J> = Vec::new();
    let mut cnt = 0u64;
    let rep = |d: u16, t: u16| -> bool {
        let (mo, dy) = ((d >> 5) & 0xF, d & 0x1F);
        let (h, mi, s2) = (t >> 11, (t >> 5) & 0x3F, t & 0x1F);
        (1..=12).contains(&mo) && (1..=31).contains(&dy) && h <= 23 && mi <= 59 && s2 <= 29
    };
    let mut check = |d: u16, t: u16, bad: &mut Vec<J>| {
        if rep(d, t) {
            let ts = Timestamp::from_fat(d, t);
            let b = ts.serialize_to_fat();
            if (u16::from_le_bytes([b[2], b[3]]), u16::from_le_bytes([b[0], b[1]])) != (d, t) && bad.len() < 5 {
                bad.push(json!([d, t]));
            }
        }
    };
    if quick {
        for _ in 0..(1u64 << 22) {
            let x = rng.next();
            check(x as u16, (x >> 16) as u16, &mut bad);
            cnt += 1;
        }
    } else {
        for d in 0..=65535u16 {
            for t in 0..=65535u16 {
                check(d, t, &mut bad);
                cnt += 1;
            }
        }
    }
    // native: every calendar day 1980-01-01 .. 2107-12-31, seconds sampled (all of them for 40 days in thorough)
    let mut calbad = 0u64;
    for y in 1980..=2107u16 {
        for mo in 1..=12u8 {
            for d in 1..=31u8 {
                let all = !quick && (y as u64 * 372 + mo as u64 * 31 + d as u64) % 1190 == 0;
                let reps = if all { 86400 } else if quick { 20 } else { 200 };
                for i in 0..reps {
                    let sod = if all { i as u32 } else { rng.below(86400) as u32 };
                    let (h, mi, s) = ((sod / 3600) as u8, ((sod % 3600) / 60) as u8, (sod % 60) as u8);
                    cnt += 1;
                    let leap = (y % 4 == 0 && y % 100 != 0) || y % 400 == 0;
                    let dim = match mo {
                        2 => if leap { 29 } else { 28 },
                        4 | 6 | 9 | 11 => 30,
                        _ => 31,
                    };
                    let ts = match Timestamp::from_calendar(y, mo, d, h, mi, s) {
                        Ok(ts) => ts,
                        Err(_) => {
                            // refusing a day the calendar does not have is fine; refusing a real one is not
                            if d <= dim {
                                calbad += 1;
                                if bad.len() < 5 {
                                    bad.push(json!([y, mo, d, h, mi, s]));
                                }
                            }
                            continue;
                        }
                    };
                    let b = ts.serialize_to_fat();
                    let back = Timestamp::from_fat(u16::from_le_bytes([b[2], b[3]]), u16::from_le_bytes([b[0], b[1]]));
                    let (wd, wt) = crate::vals::calendar_to_fat(y, mo, d, h, mi, s);
                    if back.year_since_1970 as u16 + 1970 != y || back.zero_indexed_month + 1 != mo || back.zero_indexed_day + 1 != d
                        || back.hours != h || back.minutes != mi || back.seconds != (s / 2) * 2
                        || (u16::from_le_bytes([b[2], b[3]]), u16::from_le_bytes([b[0], b[1]])) != (wd, wt)
                    {
                        calbad += 1;
                        if bad.len() < 5 {
                            bad.push(json!([y, mo, d, h, mi, s]));
                        }
                    }
                }
            }
        }
    }
    n += new_slot_vectors(out);
    json!({"vectors": n, "native": cnt, "mismatch": bad, "calbad": calbad})
}

/// Entries the library creates (files, directories) in slots another system left behind - deleted entries and an end marker
/// whose remaining 31 bytes are not clean: the 32 bytes on the medium afterwards, all of them.
fn new_slot_vectors(out: &mut dyn Write) -> u64 {
    use crate::dev::SparseDev;
    use crate::fs::Clock;
    use embedded_sdmmc::{Mode, VolumeIdx, VolumeManager};
    let mut n = 0u64;
    for fat32 in [false, true] {
        for junk in [0xFFu8, 0x5A, 0x01] {
            let del = format!("e5{}", format!("{:02x}", junk).repeat(31));
            let end = format!("00{}", format!("{:02x}", junk).repeat(31));
            let spec = json!({"vols": [{"fat32": fat32, "clusters": if fat32 { 65600 } else { 4100 }, "bpc": 1, "nfats": 2, "root_entries": 16, "lba": 8, "slot": 0,
                "ptype": if fat32 { 12 } else { 6 }, "window": [2, 3, 4, 5, 6, 7, 8], "info_free": "unknown",
                "root": [{"t": "raw", "hex": del}, {"t": "raw", "hex": del}, {"t": "raw", "hex": del}, {"t": "raw", "hex": end}]}]});
            let mut vals = crate::vals::Vals::new(vec![0]);
            let img = crate::mkfs::build(&spec, &mut vals);
            let g = img.geos[0].clone();
            let dev: SparseDev = img.dev.clone();
            let rootblk = if fat32 { g.cluster_block(g.root_clus) } else { g.root_start };
            let before = dev.0.borrow().get(rootblk);
            let clock = Clock(std::rc::Rc::new(std::cell::Cell::new(123)));
            let r = catch_unwind(AssertUnwindSafe(|| {
                let vm: VolumeManager<SparseDev, Clock, 4, 4, 1> = VolumeManager::new_with_limits(dev.clone(), clock, 100);
                let v = vm.open_raw_volume(VolumeIdx(0)).map_err(|_| ())?;
                let d = vm.open_root_dir(v).map_err(|_| ())?;
                let f = vm.open_file_in_dir(d, "NEW1.TXT", Mode::ReadWriteCreate).map_err(|_| ())?;
                vm.close_file(f).map_err(|_| ())?;
                vm.make_dir_in_dir(d, "NEWD").map_err(|_| ())?;
                let f = vm.open_file_in_dir(d, "NEW2.TXT", Mode::ReadWriteCreateOrAppend).map_err(|_| ())?;
                vm.close_file(f).map_err(|_| ())?;
                let f = vm.open_file_in_dir(d, "NEW3.TXT", Mode::ReadWriteCreateOrTruncate).map_err(|_| ())?;
                vm.close_file(f).map_err(|_| ())?;
                vm.close_dir(d).map_err(|_| ())?;
                vm.close_volume(v).map_err(|_| ())?;
                Ok::<(), ()>(())
            }));
            let okrun = matches!(r, Ok(Ok(())));
            let after = dev.0.borrow().get(rootblk);
            for (name, kind) in [("NEW1    TXT", "file"), ("NEWD       ", "dir"), ("NEW2    TXT", "file"), ("NEW3    TXT", "file")] {
                let nb = name.as_bytes();
                let pos = (0..16).find(|i| &after[i * 32..i * 32 + 11] == nb);
                let j = match pos {
                    Some(i) => json!({"ev": "NewSlot", "fat32": fat32, "kind": kind, "found": true, "ran": okrun, "name": nb.to_vec(),
                        "old": before[i * 32..i * 32 + 32].to_vec(), "new": after[i * 32..i * 32 + 32].to_vec()}),
                    None => json!({"ev": "NewSlot", "fat32": fat32, "kind": kind, "found": false, "ran": okrun, "name": nb.to_vec(), "old": [], "new": []}),
                };
                serde_json::to_writer(&mut *out, &j).unwrap();
                out.write_all(b"\n").unwrap();
                n += 1;
            }
        }
    }
    n
}

// ------------------------------------------------------------------------------------------- C17
use embedded_sdmmc::LfnBuffer;

fn lfn_rec(frags: &[[u16; 13]], size: usize) -> J {
    let r = catch_unwind(AssertUnwindSafe(|| {
        // (the storage is the caller's and need not be clean: whatever it held must never show through)
        let mut storage = vec![0xFFu8; size];
        let mut b = LfnBuffer::new(&mut storage);
        for f in frags {
            b.push(f);
        }
        let s = b.as_str();
        let ok = std::str::from_utf8(s.as_bytes()).is_ok();
        let sc: Vec<u32> = if ok { s.chars().map(|c| c as u32).collect() } else { vec![] };
        (ok, sc)
    }));
    let fr: Vec<Vec<u16>> = frags.iter().map(|f| f.to_vec()).collect();
    match r {
        Ok((ok, sc)) => json!({"ev": "Lfn", "frags": fr, "size": size, "panic": false, "utf8ok": ok, "out": sc}),
        Err(_) => json!({"ev": "Lfn", "frags": fr, "size": size, "panic": true, "utf8ok": false, "out": []}),
    }
}

fn name_len(frags: &[[u16; 13]]) -> usize {
    // std's lossy decoder on the joined name: only used to pick buffer sizes around the threshold
    let mut units: Vec<u16> = Vec::new();
    for f in frags.iter().rev() {
        let cut = f.iter().position(|&u| u == 0).unwrap_or(13);
        units.extend_from_slice(&f[..cut]);
    }
    String::from_utf16_lossy(&units).len()
}

pub fn lfn_vectors(out: &mut dyn Write, tier: &str, seed: u64) -> J {
    let quick = tier == "quick";
    let mut n = 0u64;
    let mut panics = 0u64;
    let classes: [u16; 7] = [0x61, 0xE9, 0x20AC, 0xD83D, 0xDE00, 0x0000, 0xFFFF];
    let mut rng = Rng(seed ^ 0xC17);
    let mut emit_sizes = |frags: &[[u16; 13]], all: bool, out: &mut dyn Write, n: &mut u64, panics: &mut u64| {
        let l = name_len(frags);
        let mut sizes: Vec<usize> = vec![0, 1, l.saturating_sub(1), l, l + 1, l + 3, 780];
        if all {
            sizes = (0..=(l + 2).min(780)).collect();
            sizes.push(780);
            // a buffer of any size: far larger than any name (around the 16-bit limit, and well beyond it)
            sizes.extend_from_slice(&[65535, 65536, 65537, 65536 + l.saturating_sub(1), 65536 + l, 131072, 1 << 20]);
        }
        sizes.sort();
        sizes.dedup();
        for s in sizes {
            let j = lfn_rec(frags, s);
            if j["panic"] == true {
                *panics += 1;
            }
            serde_json::to_writer(&mut *out, &j).unwrap();
            out.write_all(b"\n").unwrap();
            *n += 1;
        }
    };
    let filler = |i: usize| -> u16 { 0x41 + (i % 26) as u16 };
    // one fragment: every class at the first two and the last two positions
    let mut k = 0usize;
    for a in classes {
        for b in classes {
            for c in classes {
                for d in classes {
                    let mut f = [0u16; 13];
                    for i in 0..13 {
                        f[i] = filler(i);
                    }
                    f[0] = a;
                    f[1] = b;
                    f[11] = c;
                    f[12] = d;
                    k += 1;
                    emit_sizes(&[f], k % 97 == 0, out, &mut n, &mut panics);
                }
            }
        }
    }
    // two fragments: every class at the two positions on each side of the boundary.
    // push order: frags[0] is the LAST part of the name, frags[1] the first part.
    for a in classes {
        for b in classes {
            for c in classes {
                for d in classes {
                    let mut tail = [0u16; 13];
                    let mut head = [0u16; 13];
                    for i in 0..13 {
                        tail[i] = filler(i + 13);
                        head[i] = filler(i);
                    }
                    tail[5] = 0; // the name ends in the tail fragment
                    for x in tail[6..].iter_mut() {
                        *x = 0xFFFF;
                    }
                    head[11] = a;
                    head[12] = b;
                    tail[0] = c;
                    tail[1] = d;
                    k += 1;
                    emit_sizes(&[tail, head], k % 97 == 0, out, &mut n, &mut panics);
                }
            }
        }
    }
    // three fragments, surrogates / wide characters at both boundaries
    let c4: [u16; 4] = [0x61, 0x20AC, 0xD83D, 0xDE00];
    for a in c4 {
        for b in c4 {
            for c in c4 {
                for d in c4 {
                    let mut f1 = [0x62u16; 13];
                    let mut f2 = [0x63u16; 13];
                    let mut f3 = [0x64u16; 13];
                    f1[12] = a;
                    f2[0] = b;
                    f2[12] = c;
                    f3[0] = d;
                    f3[7] = 0;
                    for x in f3[8..].iter_mut() {
                        *x = 0xFFFF;
                    }
                    emit_sizes(&[f3, f2, f1], false, out, &mut n, &mut panics);
                }
            }
        }
    }
    // structured longer names: 1..=20 fragments of one class each, and seeded random fragments of arbitrary u16 values
    for nf in 1..=20usize {
        for cl in [0x61u16, 0xE9, 0x20AC, 0xD83D, 0xDE00] {
            let frags: Vec<[u16; 13]> = (0..nf).map(|_| [cl; 13]).collect();
            emit_sizes(&frags, false, out, &mut n, &mut panics);
        }
        // proper surrogate pairs split across every boundary
        let mut frags: Vec<[u16; 13]> = Vec::new();
        for _ in 0..nf {
            let mut f = [0u16; 13];
            for i in 0..13 {
                f[i] = if i % 2 == 0 { 0xDE00 } else { 0xD83D };
            }
            frags.push(f);
        }
        emit_sizes(&frags, false, out, &mut n, &mut panics);
    }
    for _ in 0..(if quick { 600 } else { 20000 }) {
        let nf = 1 + rng.below(20) as usize;
        let mut frags: Vec<[u16; 13]> = Vec::new();
        for _ in 0..nf {
            let mut f = [0u16; 13];
            for x in f.iter_mut() {
                *x = match rng.below(10) {
                    0 => 0xD800 + rng.below(0x400) as u16,
                    1 => 0xDC00 + rng.below(0x400) as u16,
                    2 => 0,
                    3 => 0xFFFF,
                    4 => rng.next() as u16,
                    5 => 0x80 + rng.below(0x700) as u16,
                    _ => 0x20 + rng.below(0x5F) as u16,
                };
            }
            frags.push(f);
        }
        emit_sizes(&frags, false, out, &mut n, &mut panics);
    }
    json!({"vectors": n, "panics": panics})
}
