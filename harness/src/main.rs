#![allow(dead_code)]
mod dev;
mod fs;
mod mkfs;
mod reader;
mod vals;

use serde_json::Value as J;
use std::io::Write;

fn arg_val(args: &[String], key: &str) -> Option<String> {
    args.iter().position(|a| a == key).and_then(|i| args.get(i + 1).cloned())
}

fn main() {
    let args: Vec<String> = std::env::args().collect();
    if args.len() < 2 {
        eprintln!("usage: vh fs <scenarios.json> <out.ndjson> [--crash permille] [--remount] [--seed n]");
        std::process::exit(2);
    }
    // library panics are data, not noise
    std::panic::set_hook(Box::new(|_| {}));
    match args[1].as_str() {
        "fs" => {
            let sc: J = serde_json::from_reader(std::fs::File::open(&args[2]).expect("open scenarios")).expect("parse scenarios");
            let mut out = std::io::BufWriter::new(std::fs::File::create(&args[3]).expect("create out"));
            let opts = fs::RunOpts {
                crash_permille: arg_val(&args, "--crash").map(|s| s.parse().unwrap()).unwrap_or(0),
                seed: arg_val(&args, "--seed").map(|s| s.parse().unwrap()).unwrap_or(1),
                remount: args.iter().any(|a| a == "--remount"),
            };
            let mut tot = (0u64, 0u64, 0u64, 0u64, 0u64, 0u64);
            for h in sc["histories"].as_array().unwrap() {
                let mut events = Vec::new();
                let st = fs::run_history(h, &mut events, &opts);
                for e in &events {
                    serde_json::to_writer(&mut out, e).unwrap();
                    out.write_all(b"\n").unwrap();
                }
                tot.0 += 1;
                tot.1 += st.api_calls;
                tot.2 += st.dev_writes;
                tot.3 += st.dev_reads;
                tot.4 += st.crash_mounts;
                tot.5 += st.panics;
            }
            out.flush().unwrap();
            println!("{}", serde_json::json!({"histories": tot.0, "api_calls": tot.1, "dev_writes": tot.2, "dev_reads": tot.3, "crash_mounts": tot.4, "panics": tot.5}));
        }
        x => {
            eprintln!("unknown subcommand {}", x);
            std::process::exit(2);
        }
    }
}
