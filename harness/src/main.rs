#![allow(dead_code)]
mod cachevec;
mod dev;
mod fs;
mod mkfs;
mod mount;
mod pure;
mod reader;
mod sd;
mod seekvec;
mod sim;
mod vals;

use serde_json::Value as J;
use std::io::Write;

fn arg_val(args: &[String], key: &str) -> Option<String> {
    args.iter().position(|a| a == key).and_then(|i| args.get(i + 1).cloned())
}

struct Sink;
static SINK: Sink = Sink;
impl log::Log for Sink {
    fn enabled(&self, _: &log::Metadata) -> bool {
        true
    }
    fn log(&self, record: &log::Record) {
        use std::fmt::Write;
        let mut s = String::new();
        let _ = write!(s, "{}", record.args());
        std::hint::black_box(&s);
    }
    fn flush(&self) {}
}

pub fn set_log(on: bool) {
    log::set_max_level(if on { log::LevelFilter::Trace } else { log::LevelFilter::Off });
}

fn main() {
    let args: Vec<String> = std::env::args().collect();
    if args.len() < 2 {
        eprintln!("usage: vh fs <scenarios.json> <out.ndjson> [--crash permille] [--remount] [--seed n]");
        std::process::exit(2);
    }
    // library panics are data, not noise
    std::panic::set_hook(Box::new(|i| {
        if std::env::var("VH_PANIC").is_ok() {
            eprintln!("{}", i);
        }
    }));
    // a logger that takes everything and formats it (so that the arguments of every log statement of the library are
    // evaluated); the level is switched per scenario / history (`log` field): off unless asked for
    log::set_logger(&SINK).ok();
    log::set_max_level(log::LevelFilter::Off);
    match args[1].as_str() {
        "fs" => {
            // vh fs <scenarios.json> <out.ndjson> [--crash permille] [--remount] [--seed n] [--skip k] [--append]
            let sc: J = serde_json::from_reader(std::fs::File::open(&args[2]).expect("open scenarios")).expect("parse scenarios");
            let append = args.iter().any(|a| a == "--append");
            let file = std::fs::OpenOptions::new().create(true).write(true).append(append).truncate(!append).open(&args[3]).expect("open out");
            let skip: usize = arg_val(&args, "--skip").map(|s| s.parse().unwrap()).unwrap_or(0);
            let opts = fs::RunOpts {
                crash_permille: arg_val(&args, "--crash").map(|s| s.parse().unwrap()).unwrap_or(0),
                seed: arg_val(&args, "--seed").map(|s| s.parse().unwrap()).unwrap_or(1),
                remount: args.iter().any(|a| a == "--remount"),
            };
            let started = std::sync::Arc::new(std::sync::atomic::AtomicU64::new(0));
            let progress_path = format!("{}.progress", &args[3]);
            {
                // watchdog: a single API call that runs for more than 30 s is a hang
                let st = started.clone();
                let pp = format!("{}.hang", &args[3]);
                std::thread::spawn(move || loop {
                    std::thread::sleep(std::time::Duration::from_secs(2));
                    let t = st.load(std::sync::atomic::Ordering::SeqCst);
                    let now = std::time::SystemTime::now().duration_since(std::time::UNIX_EPOCH).unwrap().as_secs();
                    if t != 0 && now > t + 30 {
                        let _ = std::fs::write(&pp, b"hang");
                        std::process::exit(86);
                    }
                });
            }
            let mut sink = fs::Sink { out: std::io::BufWriter::new(file), progress_path, hist_index: 0, op_started: started };
            let mut tot = (0u64, 0u64, 0u64, 0u64, 0u64, 0u64);
            for (hi, h) in sc["histories"].as_array().unwrap().iter().enumerate() {
                if hi < skip {
                    continue;
                }
                sink.hist_index = hi;
                if let Some(fe) = h.get("fault_enum") {
                    // C11: the history is run once fault-free to count its device calls, then once per
                    // chosen call index with exactly that call failing
                    let devnull = std::fs::OpenOptions::new().write(true).open("/dev/null").unwrap();
                    let mut null_sink = fs::Sink { out: std::io::BufWriter::new(devnull), progress_path: format!("{}.progress0", &args[3]), hist_index: hi, op_started: sink.op_started.clone() };
                    let mut ev0 = Vec::new();
                    let st0 = fs::run_history(h, &mut ev0, &opts, &mut null_sink);
                    let n = st0.dev_reads + st0.dev_writes;
                    let cap = fe.get("cap").and_then(|x| x.as_u64()).unwrap_or(u64::MAX);
                    let mut idx: Vec<u64> = (1..=n).collect();
                    if n > cap {
                        let mut rng = vals::Rng(opts.seed ^ (hi as u64) << 8);
                        let mut pick: Vec<u64> = (0..cap).map(|k| 1 + k * n / cap).collect();
                        for _ in 0..cap / 4 {
                            pick.push(1 + rng.below(n));
                        }
                        pick.sort();
                        pick.dedup();
                        idx = pick;
                    }
                    // (kind, i, j): one failing call; two failing calls; every call from i to j failing (a device that is
                    // away for a while and comes back)
                    let mut plans: Vec<(u8, u64, u64)> = idx.iter().map(|&i| (0u8, i, 0u64)).collect();
                    let multi = fe.get("multi").and_then(|x| x.as_u64()).unwrap_or(0);
                    if n >= 2 {
                        let mut rng = vals::Rng((opts.seed ^ 0xFA17) ^ ((hi as u64) << 12));
                        for k in 0..multi {
                            let a = 1 + rng.below(n);
                            let b = 1 + rng.below(n);
                            let (a, b) = if a <= b { (a, b) } else { (b, a) };
                            if a == b {
                                continue;
                            }
                            if k % 3 == 2 {
                                plans.push((2, a, (a + 1 + rng.below(6)).min(n)));
                            } else {
                                plans.push((1, a, if k % 3 == 0 { b } else { (a + 1 + rng.below(4)).min(n) }));
                            }
                        }
                    }
                    for (kind, i, j) in plans {
                        let mut hh = h.clone();
                        match kind {
                            0 => {
                                hh["fail_at"] = serde_json::json!(i);
                                hh["id"] = serde_json::json!(format!("{}#{}", h["id"].as_str().unwrap_or("?"), i));
                            }
                            1 => {
                                hh["fail_set"] = serde_json::json!([i, j]);
                                hh["id"] = serde_json::json!(format!("{}#{}+{}", h["id"].as_str().unwrap_or("?"), i, j));
                            }
                            _ => {
                                hh["fail_set"] = serde_json::json!((i..=j).collect::<Vec<u64>>());
                                hh["id"] = serde_json::json!(format!("{}#{}..{}", h["id"].as_str().unwrap_or("?"), i, j));
                            }
                        }
                        let mut events = Vec::new();
                        let st = fs::run_history(&hh, &mut events, &opts, &mut sink);
                        sink.flush_events(&mut events);
                        tot.0 += 1;
                        tot.1 += st.api_calls;
                        tot.2 += st.dev_writes;
                        tot.3 += st.dev_reads;
                        tot.5 += st.panics;
                    }
                    continue;
                }
                let mut events = Vec::new();
                let st = fs::run_history(h, &mut events, &opts, &mut sink);
                sink.flush_events(&mut events);
                tot.0 += 1;
                tot.1 += st.api_calls;
                tot.2 += st.dev_writes;
                tot.3 += st.dev_reads;
                tot.4 += st.crash_mounts;
                tot.5 += st.panics;
            }
            let _ = std::fs::remove_file(format!("{}.progress", &args[3]));
            println!("{}", serde_json::json!({"histories": tot.0, "api_calls": tot.1, "dev_writes": tot.2, "dev_reads": tot.3, "crash_mounts": tot.4, "panics": tot.5}));
        }
        "crc" => {
            // vh crc <out.ndjson> <tier> <seed>
            let mut out = std::io::BufWriter::new(std::fs::File::create(&args[2]).expect("create out"));
            let r = pure::crc_vectors(&mut out, &args[3], args[4].parse().unwrap());
            out.flush().unwrap();
            println!("{}", r);
        }
        "cache" => {
            // vh cache <out.ndjson> <tier> <seed>
            let mut out = std::io::BufWriter::new(std::fs::File::create(&args[2]).expect("create out"));
            let r = cachevec::cache_vectors(&mut out, &args[3], args[4].parse().unwrap());
            out.flush().unwrap();
            println!("{}", r);
        }
        "seek" => {
            // vh seek <out.ndjson> <tier> <seed>
            let mut out = std::io::BufWriter::new(std::fs::File::create(&args[2]).expect("create out"));
            let r = seekvec::seek_vectors(&mut out, &args[3], args[4].parse().unwrap());
            out.flush().unwrap();
            println!("{}", r);
        }
        "codec" => {
            let mut out = std::io::BufWriter::new(std::fs::File::create(&args[2]).expect("create out"));
            let r = pure::codec_vectors(&mut out, &args[3], args[4].parse().unwrap());
            out.flush().unwrap();
            println!("{}", r);
        }
        "mount" => {
            // vh mount <images.json> <out.ndjson> <tier> <seed>
            let sc: J = serde_json::from_reader(std::fs::File::open(&args[2]).expect("open images")).expect("parse images");
            let mut out = std::io::BufWriter::new(std::fs::File::create(&args[3]).expect("create out"));
            let r = mount::mount_vectors(&sc, &mut out, &args[4], args[5].parse().unwrap());
            out.flush().unwrap();
            println!("{}", r);
        }
        "lfn" => {
            let mut out = std::io::BufWriter::new(std::fs::File::create(&args[2]).expect("create out"));
            let r = pure::lfn_vectors(&mut out, &args[3], args[4].parse().unwrap());
            out.flush().unwrap();
            println!("{}", r);
        }
        "sd" => {
            // vh sd <scenarios.json> <out.ndjson>
            let sc: J = serde_json::from_reader(std::fs::File::open(&args[2]).expect("open scenarios")).expect("parse scenarios");
            let mut out = std::io::BufWriter::new(std::fs::File::create(&args[3]).expect("create out"));
            let mut n = 0;
            for s in sc["scenarios"].as_array().unwrap() {
                let mut evs = Vec::new();
                sd::run_scenario(s, &mut evs);
                for e in &evs {
                    serde_json::to_writer(&mut out, e).unwrap();
                    out.write_all(b"\n").unwrap();
                }
                n += 1;
            }
            out.flush().unwrap();
            println!("{}", serde_json::json!({"scenarios": n}));
        }
        x => {
            eprintln!("unknown subcommand {}", x);
            std::process::exit(2);
        }
    }
}
