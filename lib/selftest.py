#!/usr/bin/env python3
"""Calibration of the exhaustive models: every Bug* configuration re-introduces a defect at design level and TLC must report
the invariant named here.  (Not a registered check; run by hand after a change to a specification.)"""
import os, sys, subprocess, time, re
sys.path.insert(0, os.path.dirname(os.path.abspath(__file__)))
from common import *
CASES = [
    ('MCImpl.tla', 'MCImplBugF1.cfg', None), ('MCImpl.tla', 'MCImplBugF2.cfg', None), ('MCImpl.tla', 'MCImplBugF3.cfg', None),
    ('MCImpl.tla', 'MCImplBugF9.cfg', None), ('MCImpl.tla', 'MCImplBugF18.cfg', None), ('MCImpl.tla', 'MCImplBugF15.cfg', 'CountTracks'),
    ('SdHost.tla', 'MCSdBugNoStopWait.cfg', 'Legal'), ('SdHost.tla', 'MCSdBugIgnoreR1.cfg', 'Legal'), ('SdHost.tla', 'MCSdBugNoTerminate.cfg', None),
    ('SdHost.tla', 'MCSdBugKeepType.cfg', None), ('SdHost.tla', 'MCSdBugNoStatus.cfg', 'FaultIsError'), ('SdHost.tla', 'MCSdBugPreCount.cfg', 'NowhereElse'),
    ('FatData.tla', 'MCDataBugRewindHalf.cfg', None), ('FatData.tla', 'MCDataBugLateCursor.cfg', None), ('FatData.tla', 'MCDataBugStepInCluster.cfg', 'ReadExact'),
    ('MCApi.tla', 'MCApiWrap.cfg', 'HandlesDistinct'),
    ('BlockCache.tla', 'MCCacheBugKeepOnWriteFail.cfg', 'Coherent'), ('BlockCache.tla', 'MCCacheBugTagBeforeRead.cfg', 'Coherent'), ('BlockCache.tla', 'MCCacheBugKeepTagOnReadFail.cfg', None),
]
bad = 0
for mod, cfg, inv in CASES:
    t0 = time.time()
    rc, out, wall = run_tlc(mod, cfg, workers=6, timeout=1500, tag='self' + cfg, heap='6g')
    m = re.search(r'Invariant (\w+) is violated', out)
    ok = m is not None and (inv is None or m.group(1) == inv)
    print('%-28s %-14s %s  %.0fs' % (cfg, m.group(1) if m else 'NO VIOLATION', 'ok' if ok else 'UNEXPECTED', time.time() - t0), flush=True)
    bad += 0 if ok else 1
sys.exit(1 if bad else 0)
