import json,sys
tr=sys.argv[1]; a=int(sys.argv[2]); b=int(sys.argv[3])
lines=open(tr).read().splitlines()
for k in range(max(0,a-1),min(len(lines),b)):
    e=json.loads(lines[k])
    if e['ev']=='W': print(k+1,'   W',e['n'],e['reg'],e['blk'],e['chg'],[(x['c'],x['v']) for x in e['fat'] if x['c'] in e['chg']], [(u['b'],u['w'],[(s['k'],s['n'][:8],s['c'],s['s']) for s in u['s']][:8],u['u']) for u in e['up']], e['info'] if e['reg']=='info' else '')
    elif e['ev']=='Call': print(k+1,'CALL',e['op'],json.dumps(e['a'])[:160],e['clk'])
    elif e['ev']=='Ret': print(k+1,'  RET',json.dumps(e['r'])[:100],json.dumps(e['obs'])[:200])
    elif e['ev']=='Reset': print(k+1,'RESET',e['hid'])
    else: print(k+1,e['ev'],json.dumps(e)[:160])
