"""Pure-function properties (C15, C17, C18, C19): exhaustive TLC models of the transcribed functions
plus vector traces from the implementation validated by TLC."""
import json, os, subprocess, shutil, time, concurrent.futures as cf
from common import *

def split_lines(path, shards, workdir, prefix):
    lines = open(path).read().splitlines()
    outs = []
    per = (len(lines) + shards - 1) // shards
    for i in range(shards):
        part = lines[i * per:(i + 1) * per]
        if not part:
            continue
        p = os.path.join(workdir, '%s-%d.ndjson' % (prefix, i))
        open(p, 'w').write('\n'.join(part) + '\n')
        outs.append(p)
    return outs, len(lines)

def validate(module, cfg, traces, tag, timeout=1500):
    def one(tr):
        rc, out, wall = run_tlc(module, cfg, env=dict(TRACE=tr), timeout=timeout, tag=tag + os.path.basename(tr))
        res = dict(trace=tr, viols=tla_prints(out, 'VIOL'), stats=tlc_stats(out), done=tla_prints(out, 'DONE'))
        if rc != 0 or not res['done']:
            res['error'] = 'TLC failed on %s (rc=%s): %s' % (tr, rc, out[-2500:])
        return res
    with cf.ThreadPoolExecutor(max_workers=10) as ex:
        return list(ex.map(one, traces))

def model(module, cfg, workers=4, timeout=1200, tag='mc', extra=None):
    rc, out, wall = run_tlc(module, cfg, workers=workers, timeout=timeout, tag=tag, extra=extra, heap='6g')
    st = tlc_stats(out)
    ok = rc == 0 and st is not None and 'No error has been found' in out
    return dict(ok=ok, stats=st or dict(generated=0, distinct=0), wall=wall, out=out[-3000:] if not ok else '')

def collect(results):
    errors = [r['error'] for r in results if r.get('error')]
    viols = []
    for r in results:
        for v in r['viols']:
            for t in v[3]:
                viols.append(dict(hid=v[1], line=v[2], prop=t[0], tag=t[1], detail=t[2], trace=r['trace']))
    states = sum((r.get('stats') or {}).get('distinct', 0) for r in results)
    gen = sum((r.get('stats') or {}).get('generated', 0) for r in results)
    return errors, viols, states, gen

def c19(tier, seed):
    t0 = time.time()
    build_harness()
    wd = os.path.join(OUT, 'pure', 'c19-%s-%d' % (tier, seed))
    os.makedirs(wd, exist_ok=True)
    m16 = model('MCCrc.tla', 'MCCrc16.cfg', tag='crc16')
    m7 = model('MCCrc.tla', 'MCCrc7.cfg', tag='crc7')
    if not (m16['ok'] and m7['ok']):
        raise ToolError('MCCrc failed: ' + m16['out'] + m7['out'])
    vec = os.path.join(wd, 'vectors.ndjson')
    r = sh([VH, 'crc', vec, tier, str(seed)])
    if r.returncode != 0:
        raise ToolError('vh crc failed: ' + r.stdout[-2000:])
    native = json.loads(r.stdout.strip().splitlines()[-1])
    traces, n = split_lines(vec, 10, wd, 'crcvec')
    results = validate('CrcTrace.tla', 'CrcTrace.cfg', traces, 'crc')
    errors, viols, states, gen = collect(results)
    for m in native['mismatch']:
        viols.append(dict(hid='native', line=0, prop='C19', tag='Crc', detail='library differs from the bit-serial reference on message %s' % m, message=m))
    sample = [json.loads(l) for l in open(vec).read().splitlines()[300:303]]
    cov = dict(states=m16['stats']['distinct'] + m7['stats']['distinct'] + states,
               transitions=m16['stats']['generated'] + m7['stats']['generated'] + gen,
               traces_validated_against_impl=n, evaluations=n + native['native'], distinct_nontrivial=n - 1,
               rule='register model: every value of both shift registers is a TLC state (MCCrc, W=16 and W=7) with the linearity / bijectivity / '
                    'self-annihilation / error-detection ASSUMEs evaluated over the whole register; vectors: each message is one TLC step comparing the '
                    'library with Crc.tla (all messages of length 0-1, two-byte messages (all in thorough), single-bit messages of length 5/16/512, random up to 2 KiB); '
                    'native: library vs the Crc.tla-pinned bit-serial reference on all 2^24 three-byte messages; distinct = distinct messages (non-empty)',
               native_three_byte_messages=native['native'], samples=sample, exhaustive=False)
    return errors, viols, cov, 'exploration', ['Bitwise XOR of the CommunityModules', 'the bit-serial Rust reference is pinned to Crc.tla by the same vectors'], time.time() - t0

def c18(tier, seed):
    t0 = time.time()
    build_harness()
    wd = os.path.join(OUT, 'pure', 'c18-%s-%d' % (tier, seed))
    os.makedirs(wd, exist_ok=True)
    vec = os.path.join(wd, 'vectors.ndjson')
    r = sh([VH, 'codec', vec, tier, str(seed)])
    if r.returncode != 0:
        raise ToolError('vh codec failed: ' + r.stdout[-2000:])
    native = json.loads(r.stdout.strip().splitlines()[-1])
    traces, n = split_lines(vec, 10, wd, 'codecvec')
    results = validate('CodecTrace.tla', 'CodecTrace.cfg', traces, 'codec')
    errors, viols, states, gen = collect(results)
    for m in native['mismatch']:
        viols.append(dict(hid='native', line=0, prop='C18', tag='Timestamp', detail='native loop: decode/encode is not the identity (or not the FAT layout) for %s' % m))
    lines = open(vec).read().splitlines()
    sample = [json.loads(lines[i]) for i in (70000, 131080, 140000, len(lines) - 5)]
    kinds = {}
    for ln in lines:
        k = ln[7:15]
        kinds[k] = kinds.get(k, 0) + 1
    cov = dict(evaluations=n + native['native'], distinct_nontrivial=n,
               rule='each vector is one TLC step of CodecTrace comparing the implementation with Codec.tla / Sfn.tla: all 65536 date words and all 65536 time words '
                    '(from_fat, serialize_to_fat), calendar boundary timestamps, directory entries over all 256 attribute bytes x both FAT types x boundary clusters/sizes/'
                    'time words plus random slots (decode via get_entry, encode via the verif_serialize hook, round trip), every string up to length 4 (5 in thorough) '
                    'over a 12-character class alphabet plus structured names up to 13 characters (create_from_str, Display, re-parse); native loops: '
                    '(date,time) pairs (2^22 sample quick / all 2^32 thorough) and every calendar day 1980..2107 with sampled seconds; distinct = distinct vectors',
               states=states, transitions=gen, traces_validated_against_impl=n, vectors=n, native=native['native'], samples=sample, exhaustive=False)
    return errors, viols, cov, 'exploration', ['the verif_serialize hook forwards to the real serialiser', 'the native 2^32 loop is compared with the Codec.tla-pinned round-trip identity, not evaluated by TLC'], time.time() - t0

def c17(tier, seed):
    import fspipe
    t0 = time.time()
    build_harness()
    wd = os.path.join(OUT, 'pure', 'c17-%s-%d' % (tier, seed))
    os.makedirs(wd, exist_ok=True)
    vec = os.path.join(wd, 'vectors.ndjson')
    r = sh([VH, 'lfn', vec, tier, str(seed)])
    if r.returncode != 0:
        raise ToolError('vh lfn failed: ' + r.stdout[-2000:])
    native = json.loads(r.stdout.strip().splitlines()[-1])
    traces, n = split_lines(vec, 10, wd, 'lfnvec')
    results = validate('LfnTrace.tla', 'LfnTrace.cfg', traces, 'lfn')
    errors, viols, states, gen = collect(results)
    # the listing part: directories packed with fragment runs, through the real iterate_dir_lfn
    fr = fspipe.run_suite('lfn', tier, seed)
    errors += fr['errors']
    for v in fr['viols']:
        if v['prop'] == 'C17' or v['tag'] == 'Panic':
            viols.append(dict(hid=v['hid'], line=v['line'], prop='C17', tag=v['tag'], detail=v['detail'], trace=os.path.join(fr['dir'], 'trace-%d.ndjson' % v['shard'])))
    lines = open(vec).read().splitlines()
    sample = [json.loads(lines[i]) for i in (5, 2500, len(lines) - 3)]
    cov = dict(evaluations=n + fr['api_calls'], distinct_nontrivial=n,
               rule='buffer part: each vector = a fragment sequence pushed into a real LfnBuffer of a given size, one TLC step of LfnTrace comparing with Lfn.BufferText '
                    '(every code-unit class at the first/last two positions of one fragment, at both sides of a two-fragment boundary, surrogates at both boundaries of three '
                    'fragments, 1..20 fragments per class, seeded random u16 fragments; sizes 0, 1, L-1, L, L+1, L+3, 780 and every size 0..L+2 for every 97th); listing part: '
                    'directories packed with every symbol sequence of length <= 2 (<= 3 in thorough) over 14 slot kinds plus random longer ones and random bytes, listed by the real '
                    'iterate_dir_lfn and checked against Lfn.LfnFor by FatTrace; distinct = distinct buffer vectors',
               states=states + fr['tlc_states'], transitions=gen + fr['tlc_generated'], traces_validated_against_impl=n + fr['histories'],
               listing_histories=fr['histories'], samples=sample, exhaustive=False)
    return errors, viols, cov, 'model_checking', ['std::char::decode_utf16 is not trusted: expectations come from Lfn.tla',
                                                  'malformed directory images are checked for results and crashes only (lenient mode)'], time.time() - t0

def c15(tier, seed):
    import fspipe, fsgen
    t0 = time.time()
    build_harness()
    wd = os.path.join(OUT, 'pure', 'c15-%s-%d' % (tier, seed))
    os.makedirs(wd, exist_ok=True)
    quick = tier == 'quick'
    geoms = fsgen.mount_geometries(seed, quick)
    pick = geoms if not quick else geoms[::3]
    json.dump(dict(images=[dict(vols=[v]) for v in pick]), open(os.path.join(wd, 'images.json'), 'w'))
    vec = os.path.join(wd, 'vectors.ndjson')
    r = sh([VH, 'mount', os.path.join(wd, 'images.json'), vec, tier, str(seed)])
    if r.returncode != 0:
        raise ToolError('vh mount failed: ' + r.stdout[-2000:])
    traces, n = split_lines(vec, 10, wd, 'mountvec')
    results = validate('MountTrace.tla', 'MountTrace.cfg', traces, 'mount')
    errors, viols, states, gen = collect(results)
    # the valid part: full histories on every generated layout, validated by FatTrace
    fr = fspipe.run_suite('mount', tier, seed)
    errors += fr['errors']
    for v in fr['viols']:
        viols.append(dict(hid=v['hid'], line=v['line'], prop='C15', tag='Layout:' + v['tag'], detail='%s (property %s) on a valid layout %s' % (v['detail'], v['prop'], v['hid']),
                          trace=os.path.join(fr['dir'], 'trace-%d.ndjson' % v['shard'])))
    tool = [v for v in viols if v['prop'] == 'TOOL']
    if tool:
        errors.append('formatter / Mount.tla disagree: %s' % tool[0])
    lines = open(vec).read().splitlines()
    sample = [json.loads(lines[i]) for i in (0, 40, len(lines) - 2)]
    outcomes = {}
    for ln in lines:
        e = json.loads(ln)
        outcomes[e['r']] = outcomes.get(e['r'], 0) + 1
    cov = dict(evaluations=n + fr['api_calls'], distinct_nontrivial=n,
               rule='invalid part: each vector = one open_volume on an image with one mutated field (every MBR / boot-sector / info-sector field at 0, 1, 2, max, max-1, +-1, '
                    'all 256 values of the byte fields), random byte mutations, fully random sectors, the partition moved to the end of the 32-bit range; one TLC step of '
                    'MountTrace each (panic = violation; Mount.Valid and refused = violation); valid part: layouts over blocks per cluster 1..128 x cluster counts '
                    '4085/4086/65524/65525/... x reserved / FAT count / root entries / 16-32-bit totals / partition slot and offset, each driven through open, list, read, '
                    'create, remount and validated by FatTrace; distinct = distinct mutation vectors',
               states=states + fr['tlc_states'], transitions=gen + fr['tlc_generated'], traces_validated_against_impl=n + fr['histories'],
               valid_layout_histories=fr['histories'], outcomes=outcomes, samples=sample, exhaustive=False)
    return errors, viols, cov, 'model_checking', ['only open_volume is judged on invalid input (operations on a volume opened from a damaged boot sector are out of scope)',
                                                  'the independent formatter is cross-checked against Mount.Layout on every image'], time.time() - t0


def seekvec(tier, seed):
    """C01: seek arithmetic on files of every size (vectors from the real File API validated against Seek.tla); cached"""
    key = cache_key('seek', tier, seed)
    wd = os.path.join(OUT, 'cache', key)
    rp = os.path.join(wd, 'seek-result.json')
    if os.path.exists(rp):
        return json.load(open(rp))
    t0 = time.time()
    build_harness()
    os.makedirs(wd, exist_ok=True)
    vec = os.path.join(wd, 'vectors.ndjson')
    r = sh([VH, 'seek', vec, tier, str(seed)])
    if r.returncode != 0:
        raise ToolError('vh seek failed: ' + r.stdout[-2000:])
    traces, n = split_lines(vec, 6, wd, 'seekvec')
    results = validate('SeekTrace.tla', 'SeekTrace.cfg', traces, 'seek')
    errors, viols, states, gen = collect(results)
    lines = open(vec).read().splitlines()
    res = dict(errors=errors, viols=viols, vectors=n, states=states, generated=gen, wall=time.time() - t0, sample=[json.loads(lines[i]) for i in (3, len(lines) // 2, len(lines) - 2)])
    json.dump(res, open(rp, 'w'))
    return res


def cachevec(tier, seed):
    """C11 / C04: the real BlockCache driven directly (every sequence of three calls with failing device calls, random longer
    ones), each call validated as one action of BlockCache.tla; the exhaustive run of that specification; cached"""
    key = cache_key('cachevec', tier, seed)
    wd = os.path.join(OUT, 'cache', key)
    rp = os.path.join(wd, 'cache-result.json')
    if os.path.exists(rp):
        return json.load(open(rp))
    t0 = time.time()
    build_harness()
    os.makedirs(wd, exist_ok=True)
    m = model('BlockCache.tla', 'MCCache.cfg', tag='mccache')
    if not m['ok']:
        raise ToolError('BlockCache model check failed: ' + m['out'])
    # Apalache: IndInv is inductive (base case, then one step from ANY state that satisfies it)
    ind = []
    for init, length in (('Init', 0), ('IndInit', 1)):
        od = os.path.join(wd, 'apalache-%s' % init)
        t1 = time.time()
        r = subprocess.run(['timeout', '900', 'apalache-mc', 'check', '--cinit=ConstInit', '--init=' + init, '--inv=IndInv', '--length=%d' % length,
                            '--out-dir=' + od, 'MCCacheInd.tla'], cwd=SPEC, stdout=subprocess.PIPE, stderr=subprocess.STDOUT, text=True)
        ok = 'The outcome is: NoError' in r.stdout
        ind.append(dict(init=init, length=length, ok=ok, wall=round(time.time() - t1, 1)))
        shutil.rmtree(od, ignore_errors=True)
        if not ok:
            raise ToolError('Apalache: BlockCache.IndInv is not inductive (%s): %s' % (init, r.stdout[-1500:]))
    vec = os.path.join(wd, 'vectors.ndjson')
    r = sh([VH, 'cache', vec, tier, str(seed)])
    if r.returncode != 0:
        raise ToolError('vh cache failed: ' + r.stdout[-2000:])
    native = json.loads(r.stdout.strip().splitlines()[-1])
    # cut at Reset boundaries
    lines = open(vec).read().splitlines()
    shards = 8
    parts = [[] for _ in range(shards)]
    k = -1
    for ln in lines:
        if ln.startswith('{"ev":"Reset"'):
            k += 1
        parts[k % shards].append(ln)
    traces = []
    for i, p in enumerate(parts):
        if p:
            tp = os.path.join(wd, 'cachevec-%d.ndjson' % i)
            open(tp, 'w').write('\n'.join(p) + '\n')
            traces.append(tp)
    results = validate('CacheTrace.tla', 'CacheTrace.cfg', traces, 'cache')
    errors, viols, states, gen = collect(results)
    res = dict(errors=errors, viols=viols, vectors=native['vectors'], sequences=native['sequences'], states=states + m['stats']['distinct'], generated=gen + m['stats']['generated'],
               model=dict(cfg='BlockCache MCCache.cfg', states=m['stats']['distinct'], generated=m['stats']['generated'], wall=round(m['wall'], 1)), inductive=ind,
               wall=time.time() - t0, sample=[json.loads(lines[i]) for i in (1, len(lines) // 2, len(lines) - 1)])
    json.dump(res, open(rp, 'w'))
    return res
