"""spec -> impl: behaviours of the FatImpl model (TLC simulation of MCImplSim) turned into histories for the real code."""
import json, os, random
from common import *
import fsgen
from images import *

def sim_behaviours(cfg, num, depth, seed):
    rc, out, wall = run_tlc('MCImplSim.tla', cfg, workers=1, timeout=600, tag='sim' + cfg, extra=['-simulate', 'num=%d' % num, '-depth', str(depth), '-seed', str(seed)], heap='4g')
    reps = tla_prints(out, 'REPLAY')
    if not reps:
        raise ToolError('MCImplSim produced no behaviours: ' + out[-1500:])
    seen, res = set(), []
    for r in reps:
        key = json.dumps(r[1])
        if key not in seen:
            seen.add(key)
            res.append(r[1])
    return res

def image_for(kind, upb_bounds):
    filler = [f('FIL%02d.X' % i) for i in range(14)]
    if kind == 16:
        v, upc, bounds = fsgen.geom('G16a', tree='T0', nfree=3, bounds=upb_bounds)
        v['root_entries'] = 16
        v['root'] = filler
    else:
        v, upc, bounds = fsgen.geom('G32a', tree='T0', nfree=3, bounds=upb_bounds)
        v['nfats'] = 1
        v['root'] = filler
        v['info_free'] = 'correct'       # the stored count is right (three free clusters) and must stay right: C16
    return dict(vols=[v]), upc, bounds

def to_history(hid, steps, kind, bounds):
    labels = [x[0] for x in steps]
    plans = [x[1] for x in steps]
    image, upc, bounds = image_for(kind, bounds)
    ops = fsgen.prologue()
    fsgen.fix_slot(image, ops)
    expect = []
    cur = {}      # name -> var of the open handle
    k = 0
    for lab in labels:
        op = lab[0]
        nm = lab[1].upper() if len(lab) > 1 else ''
        if op == 'create':
            k += 1
            cur[nm] = 'f%d' % k
            ops.append(fsgen.O('open_file', d='d0', name=nm, mode='Create', as_=cur[nm]))
            expect.append(('open_file', lab[2]))
        elif op == 'open':
            k += 1
            cur[nm] = 'f%d' % k
            ops.append(fsgen.O('open_file', d='d0', name=nm, mode='Append', as_=cur[nm]))
            expect.append(('open_file', True))
        elif op == 'opentrunc':
            k += 1
            cur[nm] = 'f%d' % k
            ops.append(fsgen.O('open_file', d='d0', name=nm, mode='Truncate', as_=cur[nm]))
            expect.append(('open_file', True))
        elif op == 'extend':
            ops.append(fsgen.O('write', f=cur[nm], n=upc))
            expect.append(('write', lab[2]))
        elif op in ('flush', 'close'):
            ops.append(fsgen.O('flush' if op == 'flush' else 'close_file', f=cur[nm]))
            expect.append((ops[-1]['op'], True))
        elif op == 'delete':
            ops.append(fsgen.O('delete', d='d0', name=nm))
            expect.append(('delete', True))
        elif op == 'mkdir':
            ops.append(fsgen.O('mkdir', d='d0', name=nm))
            expect.append(('mkdir', lab[2]))
    # epilogue: close what is open, everything is looked at afresh
    for nm, var in cur.items():
        ops.append(fsgen.O('close_file', f=var))
    ops += [fsgen.O('iterate', d='d0'), fsgen.O('lookup_all', d='d0'), fsgen.O('close_dir', d='d0'), fsgen.O('close_volume', v='v0'), fsgen.O('remount')]
    expect = [(e[0], e[1], plans[i]) for i, e in enumerate(expect)]
    return dict(id=hid, src='tour', image=image, bounds=bounds, limits=[4, 4, 1], ops=ops, expect=expect, labels=labels, kind=kind)

def tour_histories(seed, quick):
    H = []
    rng = random.Random(seed)
    for kind, cfg in ((16, 'MCImplSim16.cfg'), (32, 'MCImplSim32.cfg')):
        beh = sim_behaviours(cfg, 120 if quick else 1200, 150, seed + kind)
        for i, labels in enumerate(beh):
            H.append(to_history('T%d-%d' % (kind, i), labels, kind, rng.choice(fsgen.BOUNDS[:2])))
    return H

FILLER = 14     # pre-filled slots of the root directory of the tour images

def abstract_writes(ws, g):
    """the real device writes of one call in the vocabulary of FatImpl's plans: FAT entries (cluster numbers renamed to the
    model's: the window of the image in ascending order is 2, 3, ...), directory slots, zeroed / dot-initialised directory
    clusters, the FAT32 information sector (that it is written, not its values).  File data is not part of the model."""
    win = sorted(g['win'])
    def m(c):
        return 2 + win.index(c) if c in win else 1000 + c
    eoc = 0xFFF8 if not g['fat32'] else 0x0FFFFFF8
    out = []
    for e in ws:
        reg = e['reg']
        if reg in ('fat1', 'fat2'):
            vals = {x['c']: x.get('hi', 0) * 65536 + x['v'] for x in e['fat']}
            for c in e['chg']:
                v = vals.get(c, 0)
                out.append(['fat' if reg == 'fat1' else 'fat2', m(c), 0 if v == 0 else -1 if v >= eoc else m(v)])
        elif reg == 'info':
            out.append(['info', 0])
        elif reg == 'root':
            for i in e['chg']:
                out.append(['slot', 0, i - FILLER + 1])
            if not e['chg']:
                out.append(['slot', 0, '?'])          # rewritten with the bytes it had: which slot cannot be told
        elif reg == 'data':
            c = (e['blk'] - g['dataStart']) // g['bpc'] + 2
            isdir = any(u['w'] == 's' for u in e['up'])
            if e.get('z'):
                out.append(['zero', m(c)])
            elif e.get('dot'):
                out.append(['dots', m(c)])
            elif isdir:
                off = FILLER if g['fat32'] and c == g['rootClus'] else 0
                for i in e['chg']:
                    out.append(['slot', m(c), i - off + 1])
                if not e['chg']:
                    out.append(['slot', m(c), '?'])
    return out

def same_writes(model, real):
    return len(model) == len(real) and all(len(a) == len(b) and all(x == y or y == '?' for x, y in zip(a, b)) for a, b in zip(model, real))

def drift(result_dir, histories):
    """compare what the model predicts - the outcome of each call (ok flags of create / extend / mkdir) and the device writes
    it issues, in order - with what the implementation did"""
    exp = {h['id']: h['expect'] for h in histories if 'expect' in h}
    import glob
    mism, total = [], 0
    for tr in glob.glob(os.path.join(result_dir, 'trace-*.ndjson')):
        hid, seq, cur, g = None, [], None, None
        def flush():
            nonlocal total
            if hid in exp:
                want = exp[hid]
                got = [x for x in seq][2:2 + len(want)]     # after open_volume, open_root
                for w, x in zip(want, got):
                    total += 1
                    real = abstract_writes(x[2], g)
                    if w[0] != x[0] or w[1] != x[1]:
                        mism.append(dict(hid=hid, want=[w[0], w[1]], got=[x[0], x[1]]))
                        break
                    if not same_writes([list(p) for p in w[2]], real):
                        mism.append(dict(hid=hid, want=[w[0], 'writes', w[2]], got=[x[0], 'writes', real]))
                        break
        with open(tr) as fh:
            for line in fh:
                e = json.loads(line)
                if e['ev'] == 'Reset':
                    flush()
                    hid, seq, cur = e['hid'], [], None
                    g = e['vols'][0]['g'] if e.get('vols') else None
                elif e['ev'] == 'Call':
                    cur = []
                elif e['ev'] == 'W' and cur is not None:
                    cur.append(e)
                elif e['ev'] == 'Ret':
                    seq.append((e['op'], e['r']['k'] == 'ok', cur or []))
                    cur = None
        flush()
    return total, mism

# ------------------------------------------------------------------------------------------------
# API-level tours (MCApi): open tables, limits, stale handles, the mode x state matrix

API_NAMES = {'4120202020202020202020': 'A', '5220202020202020202020': 'R', '4420202020202020202020': 'D', '4e20202020202020202020': 'N',
             '2e20202020202020202020': '.', '2e2e202020202020202020': '..'}

def api_behaviours(num, seed):
    rc, out, wall = run_tlc('MCApiSim.tla', 'MCApiSim.cfg', workers=1, timeout=900, tag='apisim', extra=['-simulate', 'num=%d' % num, '-depth', '60', '-seed', str(seed)], heap='4g')
    reps = tla_prints(out, 'REPLAY')
    if not reps:
        raise ToolError('MCApiSim produced no behaviours: ' + out[-1500:])
    seen, res = set(), []
    for r in reps:
        key = json.dumps(r[1][:-1])          # TLC prints every successor of the last step: keep one per behaviour
        if key not in seen:
            seen.add(key)
            res.append(r[1])
    return res

def api_image():
    v, upc, bounds = fsgen.geom('G16a', tree='T0', nfree=4, bounds=[0, 256])
    low = [2, 3, 4]
    v['window'] = sorted(set(v['window'] + low))
    v['root'] = [f('A', [2], 1), f('R', [3], 1, attr=0x21), d('D', [4], [])]
    return dict(vols=[v]), upc, bounds

def api_to_history(hid, labels):
    image, upc, bounds = api_image()
    ops, expect = [], []
    def var(h):
        return 'h%d' % h
    for lab in labels:
        op, refs = lab[0], lab[1]
        name = op[0]
        o = None
        if name == 'open_volume':
            o = fsgen.O('open_volume', idx=None, as_=var(op[1]) if op[1] >= 0 else 'hx')
        elif name == 'close_volume':
            o = fsgen.O('close_volume', v=var(op[1]))
        elif name == 'open_root':
            o = fsgen.O('open_root', v=var(op[1]), as_=var(op[2]) if op[2] >= 0 else 'hx')
        elif name == 'open_dir':
            o = fsgen.O('open_dir', d=var(op[1]), name=API_NAMES[op[2]], as_=var(op[3]) if op[3] >= 0 else 'hx')
        elif name == 'close_dir':
            o = fsgen.O('close_dir', d=var(op[1]))
        elif name == 'open_file':
            o = fsgen.O('open_file', d=var(op[1]), name=API_NAMES[op[2]], mode=op[3], as_=var(op[4]) if op[4] >= 0 else 'hx')
        elif name in ('write', 'read'):
            o = fsgen.O(name, f=var(op[1]), n=1)
        elif name in ('flush', 'close_file'):
            o = fsgen.O(name, f=var(op[1]))
        elif name in ('delete', 'mkdir'):
            o = fsgen.O(name, d=var(op[1]), name=API_NAMES[op[2]])
        if o is None:
            continue
        ops.append(o)
        want = None if (refs and set(refs) & {'ok', 'skip'}) else (len(refs) == 0)
        expect.append((o['op'], want, sorted(refs)))
    fsgen.fix_slot(image, ops)
    ops.append(fsgen.O('has_open'))
    return dict(id=hid, src='apitour', image=image, bounds=bounds, limits=[2, 2, 2], ops=ops, apiexpect=expect)

def api_tour_histories(seed, quick):
    beh = api_behaviours(60 if quick else 1500, seed)
    return [api_to_history('A%d' % i, b) for i, b in enumerate(beh)]

def api_drift(result_dir, histories):
    """the model says whether each call is refused; compare with what the implementation did (ops are lined up by
    their index in the scenario; ops the harness had to skip - a handle of another kind - have no counterpart)"""
    import glob
    exp = {h['id']: h['apiexpect'] for h in histories if 'apiexpect' in h}
    total, mism = 0, []
    for tr in glob.glob(os.path.join(result_dir, 'trace-*.ndjson')):
        hid, idx = None, -1
        with open(tr) as fh:
            for line in fh:
                e = json.loads(line)
                if e['ev'] == 'Reset':
                    hid = e['hid']
                elif e['ev'] == 'Call':
                    idx = e.get('i', -1)
                elif e['ev'] == 'Ret' and hid in exp and 0 <= idx < len(exp[hid]):
                    wop, wok, refs = exp[hid][idx]
                    if wok is None or wop != e['op']:
                        continue
                    total += 1
                    gok = e['r']['k'] == 'ok'
                    if wok != gok and len(mism) < 50:
                        mism.append(dict(hid=hid, want=[wop, wok, refs], got=[e['op'], gok, e['r']['e']], i=idx))
    return total, mism

# ------------------------------------------------------------------------------------------------
# data-path tours (FatData): reads, writes, seeks and re-opening of one file on chains of every shape

def data_behaviours(num, seed):
    rc, out, wall = run_tlc('MCDataSim.tla', 'MCDataSim.cfg', workers=1, timeout=900, tag='datasim%d' % seed, extra=['-simulate', 'num=%d' % num, '-depth', '20', '-seed', str(seed)], heap='4g')
    if 'violated' in out or 'Error:' in out:
        raise ToolError('MCDataSim: the data-path model violates a property during simulation: ' + out[-2500:])
    reps = tla_prints(out, 'REPLAY')
    if not reps:
        raise ToolError('MCDataSim produced no behaviours: ' + out[-1500:])
    seen, res = set(), []
    for r in reps:
        key = json.dumps(r[1][:-1])          # TLC prints every successor of the last step: keep one per behaviour
        if key not in seen:
            seen.add(key)
            res.append(r[1])
    return res[:num]

def data_image(fat32):
    """two blocks per cluster, two units per block (a cluster = 4 units, as in the model); single-cluster files on every other
    cluster of the low window, so that deleting them lets later allocations go to lower cluster numbers"""
    v, upc, bounds = fsgen.geom('G32f' if fat32 else 'G16f', tree='T0', nfree=0, bounds=[0, 256])
    base = 3 if fat32 else 2
    pool = [base + 1 + 2 * i for i in range(6)] if fat32 else [base + 2 * i for i in range(6)]
    free = [c for c in range(base, base + 24) if c not in pool]
    v['root'] = [f('P%d.DAT' % i, [c], 1) for i, c in enumerate(pool)]
    v['window'] = sorted(set(pool + free + ([2] if fat32 else [])))
    if fat32:
        v['info_next'] = 'first'
    return dict(vols=[v]), upc, bounds

def data_to_history(hid, steps, fat32, rng):
    image, upc, bounds = data_image(fat32)
    ops = fsgen.prologue()
    fsgen.fix_slot(image, ops)
    k = 0
    cur = 'f0'
    ops.append(fsgen.O('open_file', d='d0', name='F.BIN', mode='Create', as_=cur))
    expect = {}
    pool = list(range(6))
    env = 0
    for st in steps:
        lab, off, ln, kind = st
        if rng.random() < 0.4 and lab[0] in ('write', 'reopen'):
            if pool and rng.random() < 0.7:
                ops.append(fsgen.O('delete', d='d0', name='P%d.DAT' % pool.pop(rng.randrange(len(pool)))))
            else:
                env += 1
                ops += [fsgen.O('open_file', d='d0', name='E%d.DAT' % env, mode='Create', as_='e%d' % env), fsgen.O('write', f='e%d' % env, n=1), fsgen.O('close_file', f='e%d' % env)]
        if lab[0] == 'write':
            ops.append(fsgen.O('write', f=cur, n=lab[1]))
        elif lab[0] == 'read':
            ops.append(fsgen.O('read', f=cur, n=lab[1]))
        elif lab[0] == 'seek':
            ops.append(fsgen.O('seek_start', f=cur, u=lab[1]))
        elif lab[0] == 'reopen':
            ops.append(fsgen.O('close_file', f=cur))
            k += 1
            cur = 'f%d' % k
            ops.append(fsgen.O('open_file', d='d0', name='F.BIN', mode='Truncate' if lab[1] == 'truncate' else 'Append', as_=cur))
            if lab[1] == 'read':
                ops.append(fsgen.O('seek_start', f=cur, u=0))
        expect[len(ops) - 1] = (lab[0], off, ln)
    ops += [fsgen.O('close_file', f=cur), fsgen.O('iterate', d='d0'), fsgen.O('close_dir', d='d0'), fsgen.O('close_volume', v='v0'), fsgen.O('remount')]
    return dict(id=hid, src='datatour', image=image, bounds=bounds, limits=[4, 4, 1], ops=ops, dataexpect={str(i): e for i, e in expect.items()})

def data_tour_histories(seed, quick):
    rng = random.Random(seed * 13 + 5)
    beh = data_behaviours(60 if quick else 1500, seed)
    return [data_to_history('D%d-%d' % (32 if i % 2 else 16, i), b, bool(i % 2), rng) for i, b in enumerate(beh)]

def data_drift(result_dir, histories):
    """offset and length of the file after each call: the model's against the implementation's observers"""
    import glob
    exp = {h['id']: h['dataexpect'] for h in histories if 'dataexpect' in h}
    total, mism = 0, []
    for tr in glob.glob(os.path.join(result_dir, 'trace-*.ndjson')):
        hid, idx, bad = None, -1, False
        with open(tr) as fh:
            for line in fh:
                e = json.loads(line)
                if e['ev'] == 'Reset':
                    hid, bad = e['hid'], False
                elif e['ev'] == 'Call':
                    idx = e.get('i', -1)
                elif e['ev'] == 'Ret' and hid in exp and str(idx) in exp[hid] and not bad:
                    w = exp[hid][str(idx)]
                    total += 1
                    obs = e.get('obs') or []
                    got = (obs[0]['off'], obs[0]['len']) if obs else None
                    if got != (w[1], w[2]):
                        bad = True
                        if len(mism) < 50:
                            mism.append(dict(hid=hid, want=[w[0], 'offset/length', [w[1], w[2]]], got=[e['op'], 'offset/length', list(got) if got else None]))
    return total, mism
