"""The shared file-system pipeline: scenarios -> harness traces -> TLC trace validation -> result."""
import json, os, sys, time, concurrent.futures as cf
from common import *
import fsgen

SHARDS = 10

def suite_histories(suite, tier, seed):
    quick = tier == 'quick'
    if suite == 'base':
        hs = fsgen.scripted(big=('quick' if quick else 'full'))
        hs += fsgen.random_histories(seed, 24 if quick else 2500, 50 if quick else 80)
        return hs, dict(crash=0, remount=True)
    if suite == 'crash':
        hs = fsgen.scripted()
        hs += fsgen.random_histories(seed + 7, 12 if quick else 300, 40 if quick else 60)
        return hs, dict(crash=120 if quick else 1000, remount=False)
    if suite == 'tours':
        import tours
        return tours.tour_histories(seed, quick), dict(crash=0, remount=False)
    if suite == 'apitours':
        import tours
        return tours.api_tour_histories(seed, quick), dict(crash=0, remount=False)
    if suite == 'datatours':
        import tours
        return tours.data_tour_histories(seed, quick), dict(crash=0, remount=True)
    if suite == 'fault':
        return fsgen.fault_histories(seed, quick), dict(crash=0, remount=False, tlc_timeout=3000)
    if suite == 'mount':
        return fsgen.mount_histories(seed, quick), dict(crash=0, remount=True)
    if suite == 'lfn':
        return fsgen.lfn_histories(seed, quick), dict(crash=0, remount=False)
    raise ToolError('unknown suite ' + suite)

def op_classes(trace_path, acc):
    """distinct (op, mode, outcome, error, wrote?) tuples: the measure of non-trivial coverage"""
    cur = None
    wrote = False
    n_events = 0
    with open(trace_path) as fh:
        for line in fh:
            n_events += 1
            e = json.loads(line)
            if e['ev'] == 'Call':
                cur = e
                wrote = False
            elif e['ev'] == 'W':
                wrote = True
            elif e['ev'] == 'Ret' and cur is not None:
                a = cur.get('a', {})
                acc.add((cur['op'], a.get('mode', ''), e['r']['k'], e['r']['e'], wrote, cur.get('api', 'raw')))
                cur = None
    return n_events

def run_shard(args):
    i, hs, opts, seed, workdir = args
    sc = os.path.join(workdir, 'scen-%d.json' % i)
    tr = os.path.join(workdir, 'trace-%d.ndjson' % i)
    json.dump(dict(histories=hs), open(sc, 'w'))
    cmd = [VH, 'fs', sc, tr, '--seed', str(seed), '--crash', str(opts.get('crash', 0))]
    if opts.get('remount'):
        cmd.append('--remount')
    skip = 0
    died = []
    for attempt in range(len(hs) + 1):
        r = sh(cmd + (['--skip', str(skip), '--append'] if attempt else []))
        if r.returncode == 0:
            break
        # the harness process died or hung inside a library call (interpretation decision 14):
        # attribute it to the call recorded in the progress file and carry on with the next history
        pp = tr + '.progress'
        if not os.path.exists(pp):
            return dict(i=i, error='harness failed before any call: rc=%s %s' % (r.returncode, r.stdout[-2000:]))
        pr = json.load(open(pp))
        why = 'process hung inside the call (watchdog)' if r.returncode == 86 else 'process died inside the call (exit status %s)' % r.returncode
        with open(tr, 'a') as fh:
            fh.write(json.dumps({"ev": "Call", "op": pr['op']['op'], "a": {"panicked": True, "spec": pr['op']}, "clk": pr['clk'], "api": pr['op'].get('api', 'raw')}) + '\n')
            fh.write(json.dumps({"ev": "Ret", "op": pr['op']['op'], "r": {"k": "panic", "e": why, "v": {}}, "obs": [], "fateq": True}) + '\n')
        died.append(dict(hid=pr['hid'], op=pr['op'], why=why))
        os.remove(pp)
        skip = pr['hist_index'] + 1
        if skip >= len(hs):
            break
    hstats = dict(api_calls=0, dev_writes=0, crash_mounts=0, panics=0, resets=0)
    with open(tr) as fh:
        for line in fh:
            if line.startswith('{"a"') or '"ev":"Call"' in line[:400]:
                pass
            e = json.loads(line)
            if e['ev'] == 'Reset':
                hstats['resets'] += 1
            if e['ev'] == 'Call':
                hstats['api_calls'] += 1
            elif e['ev'] == 'W':
                hstats['dev_writes'] += 1
            elif e['ev'] == 'CrashMount':
                hstats['crash_mounts'] += 1
            elif e['ev'] == 'Ret' and e['r']['k'] == 'panic':
                hstats['panics'] += 1
    rc, out, wall = run_tlc('FatTrace.tla', 'FatTrace.cfg', env=dict(TRACE=tr), timeout=opts.get('tlc_timeout', 1500), tag='fs%d' % i)
    done = tla_prints(out, 'DONE')
    depth = tla_prints(out, 'DEPTH')
    viols = tla_prints(out, 'VIOL')
    bad = tla_prints(out, 'BADIMAGE')
    st = tlc_stats(out)
    res = dict(i=i, trace=tr, scen=sc, hstats=hstats, died=died, tlc_rc=rc, tlc_wall=wall, done=done, depth=depth, viols=viols, badimage=bad, stats=st)
    if not done or rc != 0:
        res['error'] = 'TLC did not consume the trace (rc=%s): %s' % (rc, out[-3000:])
    return res

def run_suite(suite, tier, seed, force=False):
    key = cache_key('fs', suite, tier, seed)
    cdir = os.path.join(OUT, 'cache', key)
    rpath = os.path.join(cdir, 'result.json')
    if os.path.exists(rpath) and not force:
        os.utime(cdir)
        return json.load(open(rpath))
    t0 = time.time()
    build_harness()
    os.makedirs(cdir, exist_ok=True)
    hs, opts = suite_histories(suite, tier, seed)
    shards = [[] for _ in range(SHARDS)]
    # balance by op count
    for k, h in enumerate(sorted(hs, key=lambda h: -len(h['ops']))):
        shards[k % SHARDS].append(h)
    jobs = [(i, s, opts, seed, cdir) for i, s in enumerate(shards) if s]
    with cf.ThreadPoolExecutor(max_workers=SHARDS) as ex:
        results = list(ex.map(run_shard, jobs))
    errors = [r['error'] for r in results if r.get('error')]
    hist_by_id = {h['id']: h for h in hs}
    viols = []
    for r in results:
        for v in r.get('viols', []):
            # <<"VIOL", hid, line, {<<prop, tag, detail>>...}>>
            for t in v[3]:
                viols.append(dict(hid=v[1], line=v[2], prop=t[0], tag=t[1], detail=t[2], shard=r['i']))
    classes = set()
    n_events = 0
    for r in results:
        if r.get('trace') and os.path.exists(r['trace']):
            n_events += op_classes(r['trace'], classes)
    sample = None
    if results and results[0].get('trace'):
        with open(results[0]['trace']) as fh:
            lines = [next(fh) for _ in range(1)]
            rest = []
            for k, ln in enumerate(fh):
                if k < 12:
                    rest.append(json.loads(ln))
        sample = rest
    res = dict(suite=suite, tier=tier, seed=seed, key=key, dir=cdir, wall=time.time() - t0, errors=errors,
               histories=sum(r['hstats'].get('resets', 0) for r in results if 'hstats' in r), viols=viols,
               tlc_states=sum((r.get('stats') or {}).get('distinct', 0) for r in results),
               tlc_generated=sum((r.get('stats') or {}).get('generated', 0) for r in results),
               api_calls=sum(r['hstats']['api_calls'] for r in results if 'hstats' in r),
               dev_writes=sum(r['hstats']['dev_writes'] for r in results if 'hstats' in r),
               crash_mounts=sum(r['hstats']['crash_mounts'] for r in results if 'hstats' in r),
               panics=sum(r['hstats']['panics'] for r in results if 'hstats' in r),
               events=n_events, classes=sorted(map(list, classes)), sample=sample,
               badimage=[b for r in results for b in r.get('badimage', [])],
               scen={h['id']: None for h in hs})
    if suite == 'apitours':
        import tours
        total, mism = tours.api_drift(cdir, hs)
        res['drift_compared'] = total
        res['drift'] = mism[:20]
    if suite == 'datatours':
        import tours
        total, mism = tours.data_drift(cdir, hs)
        res['drift_compared'] = total
        res['drift'] = mism[:20]
    if suite == 'tours':
        import tours
        total, mism = tours.drift(cdir, hs)
        res['drift_compared'] = total
        res['drift'] = mism[:20]
    # keep the scenarios for replay files
    json.dump({h['id']: h for h in hs}, open(os.path.join(cdir, 'histories.json'), 'w'))
    json.dump(res, open(rpath, 'w'))
    return res
