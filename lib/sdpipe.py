"""SD pipeline: scenarios -> real SdCard driver against the simulated card -> TLC (SdTrace)."""
import json, os, time, concurrent.futures as cf
from common import *
import sdgen, sdtours

SHARDS = 8

def run_shard(args):
    i, scs, workdir = args
    sc = os.path.join(workdir, 'sdscen-%d.json' % i)
    tr = os.path.join(workdir, 'sdtrace-%d.ndjson' % i)
    json.dump(dict(scenarios=scs), open(sc, 'w'))
    r = sh([VH, 'sd', sc, tr])
    if r.returncode != 0:
        return dict(i=i, error='harness failed: rc=%s %s' % (r.returncode, r.stdout[-2000:]))
    rc, out, wall = run_tlc('SdTrace.tla', 'SdTrace.cfg', env=dict(TRACE=tr), timeout=1500, tag='sd%d' % i)
    done = tla_prints(out, 'DONE')
    res = dict(i=i, trace=tr, scen=sc, viols=tla_prints(out, 'VIOL'), stats=tlc_stats(out), tlc_wall=wall)
    if not done or rc != 0:
        res['error'] = 'TLC did not consume the trace (rc=%s): %s' % (rc, out[-3000:])
    return res

def run_suite(tier, seed, force=False):
    key = cache_key('sd', tier, seed)
    cdir = os.path.join(OUT, 'cache', key)
    rpath = os.path.join(cdir, 'sd-result.json')
    if os.path.exists(rpath) and not force:
        os.utime(cdir)
        return json.load(open(rpath))
    t0 = time.time()
    build_harness()
    os.makedirs(cdir, exist_ok=True)
    quick = tier == 'quick'
    scs = sdgen.healthy(seed, quick) + sdgen.misbehaving(seed, quick) + sdgen.weird_csd(seed, quick) + sdtours.scenarios(tier, seed)
    shards = [[] for _ in range(SHARDS)]
    for k, s in enumerate(scs):
        shards[k % SHARDS].append(s)
    with cf.ThreadPoolExecutor(max_workers=SHARDS) as ex:
        results = list(ex.map(run_shard, [(i, s, cdir) for i, s in enumerate(shards) if s]))
    errors = [r['error'] for r in results if r.get('error')]
    viols = []
    for r in results:
        for v in r.get('viols', []):
            for t in v[3]:
                viols.append(dict(hid=v[1], line=v[2], prop=t[0], tag=t[1], detail=t[2], shard=r['i']))
    # coverage classes from the traces: (command, card mode, misbehaviour) and (call, outcome, error)
    classes = set()
    calls = events = 0
    sample = []
    for r in results:
        if not r.get('trace'):
            continue
        cur = None
        with open(r['trace']) as fh:
            for k, line in enumerate(fh):
                e = json.loads(line)
                events += 1
                if r['i'] == 0 and 0 < k < 14:
                    sample.append(e)
                if e['ev'] == 'Cmd':
                    classes.add(('cmd', e['idx'], e['acmd'], e['mode'], e['misb'], e['r1']))
                elif e['ev'] == 'Call':
                    cur = e
                    calls += 1
                elif e['ev'] == 'Ret' and cur:
                    classes.add(('call', cur['op'], cur['n'], e['k'], e['e']))
                elif e['ev'] == 'WrBlock':
                    classes.add(('wr', e['mode'], e['resp'], e['misb']))
    drift, drift_steps = sdtours.drift(scs, [r['trace'] for r in results if r.get('trace')])
    res = dict(tier=tier, seed=seed, dir=cdir, drift=drift, drift_steps=drift_steps, tours=sum(1 for s in scs if s.get('expect') is not None), wall=time.time() - t0, errors=errors, scenarios=len(scs), viols=viols, calls=calls, events=events,
               tlc_states=sum((r.get('stats') or {}).get('distinct', 0) for r in results),
               tlc_generated=sum((r.get('stats') or {}).get('generated', 0) for r in results),
               classes=sorted(map(list, classes), key=str), sample=sample)
    json.dump({s['id']: s for s in scs}, open(os.path.join(cdir, 'sd-scenarios.json'), 'w'))
    json.dump(res, open(rpath, 'w'))
    return res
