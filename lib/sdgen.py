"""Scenarios for the SD side: healthy cards over kinds x CRC x capacities x timings (C12/C14) and
one misbehaviour per scenario from the menu of DESIGN.md Appendix B (C13), each followed by
further calls (conversation after errors, re-initialisation)."""
import random

KINDS = ['sd1', 'sd2', 'sdhc']
CSDS = {
    'sd1': [dict(ver=0, c_size=1000, mult=3, bl=9), dict(ver=0, c_size=4095, mult=7, bl=11, erase=0), dict(ver=0, c_size=3874, mult=7, bl=9)],   # (the second: 4 GiB, the last byte address is 0xFFFFFE00)
    'sd2': [dict(ver=0, c_size=4095, mult=7, bl=10), dict(ver=0, c_size=4095, mult=7, bl=11, erase=0), dict(ver=0, c_size=2047, mult=6, bl=9, erase=0)],
    'sdhc': [dict(ver=1, c_size=15, erase=0), dict(ver=1, c_size=8191), dict(ver=1, c_size=60000)],
}

def cap(csd):
    return (csd['c_size'] + 1) * 2 ** (csd['mult'] + csd['bl'] - 7) if csd['ver'] == 0 else (csd['c_size'] + 1) * 1024

def O(op, **kw):
    d = dict(op=op)
    d.update(kw)
    return d

def standard_ops(nb, rng):
    last = nb - 1
    blocks = [0, 1, last, min(last, 2 ** 22), min(last - 3, 12345)]
    ops = [O('card_type'), O('num_blocks'), O('num_bytes'), O('erase_en')]
    for b in blocks:
        n = rng.choice([1, 1, 2, 3, 4])
        b = max(0, min(b, last - n + 1))
        ops += [O('read', blk=b, n=n), O('write', blk=b, n=n), O('read', blk=b, n=n)]
    ops += [O('write', blk=5, n=1), O('write', blk=6, n=2), O('read', blk=5, n=3), O('read', blk=4, n=1), O('read', blk=8, n=1)]
    # far beyond every capacity: block numbers whose byte address does not fit 32 bits
    ops += [O('read', blk=2 ** 23, n=1), O('write', blk=2 ** 23 + 1, n=1), O('read', blk=2 ** 32 - 1, n=1), O('read', blk=2 ** 31, n=2), O('read', blk=1, n=1)]
    # single-block reads right after one another whose addresses differ in one high bit only
    for d in (32768, 2 ** 19, 2 ** 24, 2 ** 28):
        if 10 + d < nb:
            ops += [O('read', blk=10, n=1), O('read', blk=10 + d, n=1), O('read', blk=10, n=1)]
    # empty transfers (a slice of no blocks), each followed by an ordinary call
    ops += [O('read', blk=7, n=0), O('read', blk=7, n=1), O('write', blk=7, n=0), O('write', blk=7, n=1), O('read', blk=7, n=2)]
    return ops

def healthy(seed, quick):
    rng = random.Random(seed)
    S = []
    k = 0
    timings = [dict(resp=0, tok=0, busy=0, acmd41=0), dict(resp=1, tok=2, busy=3, acmd41=1), dict(resp=8, tok=8, busy=1, acmd41=5),
               dict(resp=3, tok=100, busy=2000, acmd41=50), dict(random=True, acmd41=3, busy=40)]
    for kind in KINDS:
        for crc in (True, False):
            for csd in CSDS[kind][:2 if quick else 3]:
                for t in (timings[:3] + timings[4:] if quick else timings):
                    k += 1
                    nb = cap(csd)
                    ops = standard_ops(nb, rng)
                    ops += [O('mark_uninit'), O('read', blk=1, n=1), O('mark_uninit'), O('card_type'), O('write', blk=2, n=2), O('read', blk=2, n=2)]
                    # (every other one with a logger at trace level installed: the arguments of the driver's log statements are evaluated)
                    S.append(dict(id='H%d-%s-%s' % (k, kind, 'crc' if crc else 'nocrc'), kind=kind, crc=crc, csd=csd, timing=t, seed=seed * 1000 + k, ops=ops, log=(k % 2 == 0)))
    # a card that reports OUT_OF_RANGE in the stop-transmission response when its read-ahead ran past the last block (legal):
    # multi-block reads that end exactly on the last block of the card
    for kind in KINDS:
        for crc in (True, False):
            k += 1
            csd = CSDS[kind][0]
            nb = cap(csd)
            ops = [O('read', blk=nb - 3, n=3), O('read', blk=nb - 2, n=2), O('read', blk=nb - 1, n=1), O('read', blk=nb - 4, n=3), O('read', blk=0, n=2),
                   O('write', blk=nb - 2, n=2), O('read', blk=nb - 2, n=2), O('num_blocks')]
            S.append(dict(id='H%d-oor-%s-%s' % (k, kind, 'crc' if crc else 'nocrc'), kind=kind, crc=crc, csd=csd, timing=dict(resp=1, tok=2, busy=3, acmd41=1), seed=seed * 1000 + k,
                          ops=ops, oor=True))
    # ... the same card when a block of such a read is damaged / replaced by an error token / missing: the quirk in the stop response
    # must not hide the failure
    for kind in KINDS:
        for crc in (True, False):
            for what, arg in (('flip', 77), ('errtoken', 0), ('badtoken', 0), ('notoken', 0)):
                k += 1
                csd = CSDS[kind][0]
                nb = cap(csd)
                S.append(dict(id='H%d-oorf-%s-%s-%s' % (k, what, kind, 'crc' if crc else 'nocrc'), kind=kind, crc=crc, csd=csd, timing=dict(resp=1, tok=2, busy=3, acmd41=1), seed=seed * 1000 + k,
                              misb=[dict(when='data', nth=3, what=what, arg=arg)], ops=[O('read', blk=nb - 3, n=3), O('read', blk=nb - 2, n=2), O('read', blk=nb - 3, n=4), O('read', blk=1, n=1)], oor=True))
    # card-specific data registers of every shape with CRC off (the two check bytes behind the register are on the bus all the same)
    for kind, lo in (('sdhc', 7000), ('sd1', 3000)):
        for cs in range(lo, lo + (700 if quick else 4096)):
            k += 1
            csd = dict(ver=1, c_size=cs) if kind == 'sdhc' else dict(ver=0, c_size=cs % 4096, mult=5, bl=9)
            S.append(dict(id='H%d-csd-%s-%d' % (k, kind, cs), kind=kind, crc=False, csd=csd, timing=dict(resp=0, tok=1, busy=1, acmd41=0), seed=seed * 1000 + k,
                          ops=[O('num_blocks'), O('read', blk=1, n=1), O('erase_en'), O('write', blk=1, n=1)]))
    # long transfers on a healthy card: many blocks, each followed by a (legal, short) busy period - the busy periods of one call
    # add up to more than any single wait allows; long multi-block reads
    for kind, crc, n, busy in ([('sdhc', True, 100, 600), ('sd1', False, 70, 900)] if quick else [('sdhc', True, 100, 600), ('sd1', False, 70, 900), ('sd2', True, 512, 120), ('sdhc', False, 300, 250)]):
        k += 1
        ops = [O('write', blk=3, n=n), O('read', blk=3, n=n), O('write', blk=1, n=1), O('read', blk=1, n=2), O('num_blocks')]
        S.append(dict(id='H%d-long-%s-%s' % (k, kind, 'crc' if crc else 'nocrc'), kind=kind, crc=crc, csd=CSDS[kind][1], timing=dict(resp=1, tok=3, busy=busy, acmd41=1),
                      seed=seed * 1000 + k, ops=ops))
    return S

def weird_csd(seed, quick):
    """registers a card may answer with although they make no sense as a capacity (field combinations the formula cannot take,
    a version 2.0 size beyond 2^32 - 1 blocks): the calls must return - a value or an error - and the card stays usable"""
    S = []
    regs = [('sd1', dict(ver=0, c_size=1000, mult=3, bl=1, weird=True)), ('sd1', dict(ver=0, c_size=4095, mult=0, bl=0, weird=True)),
            ('sd2', dict(ver=0, c_size=4095, mult=7, bl=15, weird=True)), ('sd2', dict(ver=0, c_size=0, mult=0, bl=6, weird=True)),
            ('sdhc', dict(ver=1, c_size=4194303, weird=True)), ('sdhc', dict(ver=1, c_size=4194302, weird=True)), ('sdhc', dict(ver=1, c_size=2097152, weird=True))]
    for k, (kind, csd) in enumerate(regs):
        for crc in (True, False):
            ops = [O('card_type'), O('num_blocks'), O('num_bytes'), O('read', blk=1, n=1), O('write', blk=2, n=1), O('read', blk=2, n=1), O('num_blocks')]
            S.append(dict(id='W%d-%s-%s' % (k, kind, 'crc' if crc else 'nocrc'), kind=kind, crc=crc, csd=csd, timing=dict(resp=1, tok=2, busy=3, acmd41=1), seed=seed + k, ops=ops))
    return S

def follow_up():
    return [O('read', blk=9, n=1), O('write', blk=9, n=1), O('read', blk=9, n=2), O('mark_uninit'), O('read', blk=9, n=1), O('num_blocks'), O('erase_en')]

def misbehaving(seed, quick):
    rng = random.Random(seed + 99)
    S = []
    k = [0]

    def add(tag, kind, crc, misb, target, pre=None, timing=None, extra=None):
        k[0] += 1
        csd = CSDS[kind][0]
        ops = (pre if pre is not None else [O('card_type'), O('read', blk=3, n=1)]) + target + follow_up()
        sc = dict(id='M%d-%s-%s-%s' % (k[0], tag, kind, 'crc' if crc else 'nocrc'), kind=kind, crc=crc, csd=csd,
                  timing=timing or dict(resp=1, tok=2, busy=3, acmd41=1), seed=seed * 7 + k[0], misb=misb, ops=ops)
        if extra:
            sc.update(extra)
        S.append(sc)

    kinds = KINDS if not quick else ['sd1', 'sdhc', 'sd2']
    for kind in kinds:
        for crc in (True, False):
            # no response / error bits at the n-th command of a fresh initialisation and of each transfer
            for nth in (range(1, 9) if not quick else [1, 2, 3, 5, 7]):
                add('silent%d' % nth, kind, crc, [dict(when='cmd', nth=nth, what='silent')], [O('read', blk=1, n=1)], pre=[])
            for cmd in ['cmd17', 'cmd18', 'cmd24', 'cmd25', 'cmd9', 'cmd13', 'cmd58', 'acmd41', 'cmd8', 'cmd12', 'acmd23', 'cmd55']:
                for what in (['silent', 'r1err', 'r1crc', 'r1ill'] if not quick or crc else ['r1err', 'r1crc']):
                    tgt = {'cmd17': [O('read', blk=1, n=1)], 'cmd18': [O('read', blk=1, n=3)], 'cmd24': [O('write', blk=1, n=1)],
                           'cmd25': [O('write', blk=1, n=3)], 'cmd9': [O('num_blocks')], 'cmd13': [O('write', blk=1, n=1)],
                           'cmd12': [O('read', blk=1, n=2)], 'acmd23': [O('write', blk=1, n=2)]}.get(cmd, [O('read', blk=1, n=1)])
                    pre = [] if cmd in ('cmd58', 'acmd41', 'cmd8', 'cmd55') else None
                    add('%s-%s' % (cmd, what), kind, crc, [dict(when=cmd, nth=1, what=what)], tgt, pre=pre)
            # small acquire_retries budgets (0 and 1) with a reset that gets no answer / an error answer once, twice, always
            for retries in (0, 1, 2):
                for nfail in (1, 2, 3):
                    for what in ('silent', 'r1err'):
                        add('retry%d-%s%d' % (retries, what, nfail), kind, crc, [dict(when='cmd0', nth=k, what=what) for k in range(1, nfail + 1)],
                            [O('read', blk=1, n=1)], pre=[], extra=dict(retries=retries))
            # one driver object, many initialisations: every one of them finds a card that ignores the first reset (within the
            # retry budget each time - the budget belongs to the initialisation, not to the object)
            for what in ('silent', 'r1err'):
                add('reinit-' + what, kind, crc, [dict(when='cmd0', nth=k, what=what) for k in (1, 3, 5, 7, 9)],
                    [O('read', blk=1, n=1), O('mark_uninit'), O('read', blk=1, n=1), O('mark_uninit'), O('write', blk=1, n=1), O('mark_uninit'), O('read', blk=1, n=2),
                     O('mark_uninit'), O('num_blocks')], pre=[], extra=dict(retries=2))
            # a card that ALWAYS answers one command with "illegal command" / an error (an MMC-like card, a card without ACMD23, ...)
            for cmd, tgt in [('acmd41', [O('read', blk=1, n=1)]), ('cmd55', [O('read', blk=1, n=1)]), ('cmd8', [O('read', blk=1, n=1)]), ('cmd58', [O('read', blk=1, n=1)]),
                             ('cmd0', [O('read', blk=1, n=1)])]:
                for what in ('r1ill', 'r1err'):
                    if quick and (not crc or (what == 'r1err') != (cmd in ('cmd55', 'cmd58'))):
                        continue      # (each of these runs into a time-out of 10 000 rounds)
                    add('always-%s-%s' % (cmd, what), kind, crc, [dict(when=cmd, nth=0, what=what)], tgt, pre=[], extra=dict(retries=3))
            for cmd, tgt in [('acmd23', [O('write', blk=1, n=2), O('read', blk=1, n=2)]), ('cmd13', [O('write', blk=1, n=1), O('read', blk=1, n=1)]),
                             ('cmd12', [O('read', blk=1, n=2), O('read', blk=1, n=1)]), ('cmd17', [O('read', blk=1, n=1), O('write', blk=1, n=1)]),
                             ('cmd25', [O('write', blk=1, n=2), O('write', blk=1, n=1)])]:
                for what in ('r1ill', 'r1err'):
                    if cmd == 'cmd12':
                        continue          # (the stop command inside a running read is answered by the stream itself)
                    add('always-%s-%s' % (cmd, what), kind, crc, [dict(when=cmd, nth=0, what=what)], tgt)
            add('badecho', kind, crc, [dict(when='cmd8', nth=n, what='badecho') for n in range(1, 3)], [O('read', blk=1, n=1)], pre=[])
            add('neverready', kind, crc, [], [O('read', blk=1, n=1)], pre=[], timing=dict(resp=1, tok=2, busy=3, acmd41=1000000))
            # data blocks
            for what in ['notoken', 'errtoken', 'badtoken']:
                add('rd-' + what, kind, crc, [dict(when='data', nth=2, what=what)], [O('read', blk=1, n=1)])
                add('rdm-' + what, kind, crc, [dict(when='data', nth=3, what=what)], [O('read', blk=1, n=3)])
                add('csd-' + what, kind, crc, [dict(when='data', nth=2, what=what)], [O('num_blocks')])
                add('csde-' + what, kind, crc, [dict(when='data', nth=2, what=what)], [O('erase_en')])
            bits = [0, 1, 7, 8, 9, 2047, 2048, 4094, 4095, 4096, 4097, 4103, 4104, 4110, 4111] + [rng.randrange(4112) for _ in range(6 if quick else 60)]
            for b in bits:
                add('flip%d' % b, kind, crc, [dict(when='data', nth=2, what='flip', arg=b)], [O('read', blk=1, n=1)])
            for b in [0, 5, 4000, 4095] + [rng.randrange(4096) for _ in range(3 if quick else 30)]:
                add('burst%d' % b, kind, crc, [dict(when='data', nth=3, what='burst', arg=b)], [O('read', blk=1, n=2)])
            # the same after another driver object took the initialised card over (mark_card_as_init)
            tk = [O('card_type'), O('read', blk=3, n=1), O('takeover')]
            for b in [0, 9, 4095, 4096, 4111]:
                add('tk-flip%d' % b, kind, crc, [dict(when='data', nth=2, what='flip', arg=b)], [O('read', blk=1, n=1)], pre=tk)
            add('tk-burst', kind, crc, [dict(when='data', nth=3, what='burst', arg=5)], [O('read', blk=1, n=2)], pre=tk)
            add('tk-csdflip', kind, crc, [dict(when='data', nth=2, what='flip', arg=70)], [O('num_blocks')], pre=tk)
            add('tk-badtoken', kind, crc, [dict(when='data', nth=2, what='badtoken')], [O('read', blk=1, n=1)], pre=tk)
            add('tk-crcreject', kind, crc, [dict(when='write', nth=1, what='crcreject')], [O('write', blk=1, n=1)], pre=tk)
            add('tk-status', kind, crc, [dict(when='cmd13', nth=1, what='status', arg=0x80)], [O('write', blk=1, n=1)], pre=tk)
            add('tk-healthy', kind, crc, [], [O('write', blk=1, n=2), O('read', blk=1, n=2), O('num_bytes'), O('takeover'), O('read', blk=1, n=1)], pre=tk)
            add('csdflip', kind, crc, [dict(when='data', nth=2, what='flip', arg=70)], [O('num_bytes')])
            add('csdeflip', kind, crc, [dict(when='data', nth=2, what='flip', arg=81)], [O('erase_en')])
            # writes
            for what in ['crcreject', 'writeerr', 'garbage', 'busyforever']:
                add('wr-' + what, kind, crc, [dict(when='write', nth=1, what=what)], [O('write', blk=1, n=1)])
                add('wrm-' + what, kind, crc, [dict(when='write', nth=2, what=what)], [O('write', blk=1, n=3)])
            for what in ['status', 'status1']:
                add('st-' + what, kind, crc, [dict(when='cmd13', nth=1, what=what)], [O('write', blk=1, n=1)])
            # every rejected-write status: each flag of the second status byte alone and combined, the error flags of
            # the first (a lone "idle" bit in the first byte is not counted as a failure report)
            for v in [0x01, 0x02, 0x08, 0x10, 0x20, 0x40, 0x80, 0x81, 0x7E, 0xFF]:
                add('st2-%02x' % v, kind, crc, [dict(when='cmd13', nth=1, what='status', arg=v)], [O('write', blk=1, n=1)])
            for v in [0x02, 0x04, 0x05, 0x08, 0x10, 0x20, 0x41, 0x7F]:
                add('st1-%02x' % v, kind, crc, [dict(when='cmd13', nth=1, what='status1', arg=v)], [O('write', blk=1, n=1)])
            # SPI bus error / dying card at byte k of the target call
            for after in ([0, 3, 7, 20, 300, 520, 530, 540, 1100] if quick else list(range(0, 40)) + list(range(500, 560)) + [1100, 1600]):
                add('spi%d' % after, kind, crc, [], [O('spierr', after=after), O('write', blk=1, n=2)])
                add('spir%d' % after, kind, crc, [], [O('spierr', after=after), O('read', blk=1, n=2)])
            # SPI failure on a token byte (start block / stop token) and right after the n-th command / block
            for nth in range(1, 5):
                add('spitokm%d' % nth, kind, crc, [dict(when='tok', nth=nth, what='spi')], [O('write', blk=1, n=3)])
            add('spitok1', kind, crc, [dict(when='tok', nth=1, what='spi')], [O('write', blk=1, n=1)])
            for nth in (range(1, 6) if quick else range(1, 12)):
                add('spicmd%d' % nth, kind, crc, [dict(when='cmd', nth=nth, what='spi')], [O('write', blk=1, n=2), O('read', blk=1, n=2)], pre=[])
            for nth in (1, 2, 3):
                add('spiwr%d' % nth, kind, crc, [dict(when='write', nth=nth, what='spi')], [O('write', blk=1, n=3)])
                add('spird%d' % nth, kind, crc, [dict(when='data', nth=nth + 1, what='spi')], [O('read', blk=1, n=3)])
            # SPI failure among the clock bytes that flush the bus after a reset that got no answer
            for after in ([10001, 10002, 10100, 10256, 10257] if quick else [10000 + k for k in range(0, 262, 3)]):
                add('spiflush%d' % after, kind, crc, [dict(when='cmd', nth=1, what='silent')], [O('spierr', after=after), O('card_type')], pre=[])
            for after in ([0, 2, 6, 9, 100, 520, 1050] if quick else list(range(0, 30)) + list(range(510, 540)) + [1050, 1570]):
                for val in ((255, 0) if quick and after not in (6, 520) else (255, 0, 0x7F, 0x55, 0x05, 0x01, 0xFE)):
                    tail = [O('read', blk=2, n=1), O('revive'), O('mark_uninit'), O('read', blk=2, n=1), O('write', blk=2, n=1), O('read', blk=2, n=1)]
                    add('die%d-%d' % (after, val), kind, crc, [], [O('kill', after=after, val=val), O('write', blk=1, n=2)] + tail)
                    add('dier%d-%d' % (after, val), kind, crc, [], [O('kill', after=after, val=val), O('read', blk=1, n=2)] + tail)
                    add('dieinit%d-%d' % (after, val), kind, crc, [], [O('kill', after=after, val=val), O('card_type')] + tail, pre=[])
    return S
