"""Scenario generation for the file-system side: image catalogue, scripted histories that hit the
coverage obligations of DESIGN.md Appendix E, and seeded random histories.  Scenarios carry no
expected results: the only oracle is TLC validating the recorded trace."""
import random
from images import *

LIMITS = [(4, 4, 1), (1, 1, 1), (2, 2, 2), (3, 2, 1), (2, 3, 4), (8, 8, 4), (1, 4, 2), (4, 1, 3)]
BOUNDS = [[0, 3, 255, 509], [0, 256], [0], [0, 4, 500], [0, 100, 200, 300, 400]]

# ------------------------------------------------------------------------------------------------
# trees

def tree_T0(w, upc):
    return [], 0

def tree_T1(w, upc):
    """the suite's shape"""
    return [f('README.TXT', [w[0]], min(3, upc)), f('EMPTY.DAT'),
            d('TEST', [w[1]], [f('TEST.DAT', [w[2], w[3]], upc + 1), f('HIWORD2.DAT', [w[5]], 1, hi16=3)]),
            f('HIWORD.DAT', [w[4]], 1, hi16=1)], 6

def tree_T2(w, upc, bpc, big_dir=True):
    """rich tree: label, long-name run, fragmented high->low chain, deleted slots, read-only file,
    zero-length files with and without a cluster, nested directories, a multi-cluster directory"""
    sub = [f('RO.TXT', [w[4]], 1, attr=0x21), f('ZC.DAT', [w[5]], 0), deleted('GONE.TXT', chain=[], units=0),
           d('DEEP', [w[6]], [f('X.BIN', [w[7]], 1)])]
    used = 8
    subchain = [w[3]]
    if big_dir and bpc == 1:
        # 2 dots + 4 + 12 = 18 slots > 16: SUB needs two (non-contiguous) clusters
        sub += [f('F%02d.Z' % i) for i in range(12)]
        subchain = [w[3], w[9]]
        used = 10
    root = [label('VERIFVOL'), f('A.TXT', [w[0]], min(3, upc)),
            lfnfor('LONGFI~1.TXT', 'long file name.txt'), f('LONGFI~1.TXT', [w[2], w[1]], 2 * upc - 1),
            deleted('OLD.DAT', chain=[], units=0),
            d('SUB', subchain, sub), f('EMPTY.DAT')]
    return root, used

# ------------------------------------------------------------------------------------------------
# geometry catalogue: name -> function(tree) -> (volume spec list, upc)

def geom(name, tree='T1', nfree=6, window_mid=False, bounds=None, info=None):
    bounds = bounds or BOUNDS[0]
    upb = len(bounds)
    P = {
        'G16a': dict(fat32=False, clusters=4090, bpc=1, nfats=2, root_entries=32, lba=8, slot=0, ptype=6, total16=True),
        'G16b': dict(fat32=False, clusters=4094, bpc=1, nfats=1, root_entries=16, lba=63, slot=1, ptype=0x0E),
        'G16c': dict(fat32=False, clusters=4200, bpc=8, nfats=2, root_entries=16, lba=100, slot=2, ptype=4, extra_tail=5, fat_extra=2, part_extra=10),
        'G16d': dict(fat32=False, clusters=4085, bpc=128, nfats=2, root_entries=32, lba=8, slot=0, ptype=6, reserved=4),
        'G16e': dict(fat32=False, clusters=65524, bpc=2, nfats=2, root_entries=32, lba=8, slot=0, ptype=6),
        'G32a': dict(fat32=True, clusters=65525, bpc=1, nfats=2, lba=8, slot=0, ptype=0x0C, reserved=32),
        'G32b': dict(fat32=True, clusters=65662, bpc=1, nfats=1, lba=2048, slot=3, ptype=0x0B, reserved=32, root_cluster=5, info_free='unknown'),
        'G32c': dict(fat32=True, clusters=70000, bpc=8, nfats=2, lba=8, slot=0, ptype=0x0C, reserved=32, extra_tail=7, fat_extra=3),
        'G32d': dict(fat32=True, clusters=65600, bpc=128, nfats=2, lba=8, slot=0, ptype=0x0C, reserved=34, fsinfo=2),
        'G16g': dict(fat32=False, clusters=4300, bpc=2, nfats=2, root_entries=100, lba=20, slot=1, ptype=6, extra_tail=1),
        'G32h': dict(fat32=True, clusters=0x01000100, bpc=1, nfats=1, lba=8, slot=0, ptype=0x0C, reserved=32),
        'G16h': dict(fat32=False, clusters=4200, bpc=1, nfats=2, root_entries=2048, lba=8, slot=0, ptype=6),
        'G16f': dict(fat32=False, clusters=4100, bpc=2, nfats=2, root_entries=32, lba=8, slot=0, ptype=6),
        'G32f': dict(fat32=True, clusters=65600, bpc=2, nfats=2, lba=8, slot=0, ptype=0x0C, reserved=32),
        'G32e': dict(fat32=True, clusters=70000, bpc=1, nfats=1, lba=8, slot=0, ptype=0x0C, reserved=32),
        # three FAT copies (legal, rare): the data area starts behind ALL of them
        'G16t': dict(fat32=False, clusters=4100, bpc=1, nfats=3, root_entries=32, lba=8, slot=0, ptype=6),
        'G32t': dict(fat32=True, clusters=65600, bpc=2, nfats=4, lba=8, slot=0, ptype=0x0C, reserved=32),
        # a tight reserved region: backup boot sector at 6, so that "backup + information sector" is the first FAT block
        'G32r': dict(fat32=True, clusters=65600, bpc=1, nfats=2, lba=8, slot=0, ptype=0x0C, reserved=7, fsinfo=1),
        # the information sector behind the backup boot sector (6), near the end of the reserved region
        'G32s': dict(fat32=True, clusters=65600, bpc=2, nfats=2, lba=8, slot=0, ptype=0x0C, reserved=12, fsinfo=9),
    }[name]
    v = dict(P)
    # volume serial numbers: any 32 bits (on FAT16 they sit where FAT32 keeps its FAT-mirroring flags)
    v['serial'] = {'G16a': 0x00800000, 'G16b': 0xFFFFFFFF, 'G16c': 0x00810000, 'G16d': 0xA5A5A5A5, 'G16e': 0x80808080, 'G16f': 0x00008100,
                   'G16g': 0x00008000, 'G16h': 0x0F0F8F0F, 'G32a': 0xFFFFFFFF, 'G32b': 0x80000001}.get(name, 0x12345678)
    if v['fat32']:
        v['dirty'] = {'G32a': 1, 'G32c': 3, 'G32r': 1}.get(name, 0)      # the "volume is mounted / needs checking" bits another system left set
        v['ext_flags'] = {'G32a': 0x0081, 'G32c': 0x0080, 'G32f': 0x0001, 'G32h': 0x008F, 'G32t': 0x0082}.get(name, 0)
    n = v['clusters']
    bpc = v['bpc']
    upc = bpc * upb
    rc = v.get('root_cluster', 2) if v['fat32'] else None
    # tree clusters: low numbers (skipping the FAT32 root cluster)
    low = [c for c in range(2, 40) if c != rc][:12]
    if tree == 'T0':
        root, used = tree_T0(low, upc)
    elif tree == 'T1':
        root, used = tree_T1(low, upc)
    else:
        root, used = tree_T2(low, upc, bpc)
    free = last_clusters(n, nfree)
    if window_mid:
        eps = 128 if v['fat32'] else 256
        free = list(range(eps - 2, eps - 2 + nfree))
    win = sorted(set(low[:used] + free + ([rc] if rc else [])))
    if tree == 'T1' and not v['fat32']:
        # the data cluster that lies where "FAT entry 65536 + n" would be if the FAT went on that far: a file there is the
        # victim of FAT accesses computed with a 32-bit cluster number on a FAT16 volume
        fatlen = (n + 2 + 255) // 256 + v.get('fat_extra', 0)
        vc = (256 - v['nfats'] * fatlen - (v['root_entries'] * 32 + 511) // 512) // bpc + 2
        if 2 <= vc < n + 2 and vc not in win:
            root = root + [f('VICTIM.DAT', [vc], min(3, upc))]
            win = sorted(set(win + [vc]))
    v['window'] = win
    v['root'] = root
    if info:
        v.update(info)
    elif v['fat32'] and 'info_free' not in v:
        v['info_next'] = 'first'
    return v, upc, bounds

def image_of(name, **kw):
    v, upc, bounds = geom(name, **kw)
    return dict(vols=[v]), upc, bounds

def image_multi(bounds=None):
    """four partitions back to back: FAT16, FAT32, FAT16, foreign"""
    bounds = bounds or BOUNDS[1]
    a, upca, _ = geom('G16a', tree='T1', bounds=bounds)
    a.update(lba=8, slot=0)
    alen = 1 + 2 * 16 + 2 + 4090
    b, upcb, _ = geom('G32a', tree='T1', bounds=bounds)
    b.update(lba=8 + alen, slot=1)
    blen = 32 + 2 * 512 + 65525
    c, upcc, _ = geom('G16b', tree='T0', bounds=bounds)
    c.update(lba=8 + alen + blen, slot=2, ptype=6)
    clen = 1 + 16 + 1 + 4094
    dd = dict(foreign=True, slot=3, lba=8 + alen + blen + clen, len=64, ptype=0x83)
    return dict(vols=[a, b, c, dd]), upca, bounds

# ------------------------------------------------------------------------------------------------
# op helpers

MODES = {'ReadOnly', 'Append', 'Truncate', 'Create', 'CreateOrTruncate', 'CreateOrAppend'}

def O(op, **kw):
    # (a mode name the harness does not know would make it panic inside the call: a tool error, to be seen here, not a library panic)
    assert op != 'open_file' or kw.get('mode') in MODES, 'scenario: unknown open mode %r' % (kw.get('mode'),)
    d_ = dict(op=op)
    for k, v in kw.items():
        d_['as' if k == 'as_' else k] = v
    return d_

def prologue(vol='v0', idx=None, root='d0'):
    return [O('open_volume', idx=idx, as_=vol), O('open_root', v=vol, as_=root)]

def epilogue(vol='v0', root='d0'):
    return [O('close_dir', d=root), O('close_volume', v=vol), O('remount')]

def fix_slot(image, ops):
    """open_volume ops without an explicit index address the (first) volume of the image"""
    slot = [v for v in image['vols'] if not v.get('foreign')][0]['slot']
    for o in ops:
        if o['op'] == 'open_volume' and o.get('idx') is None:
            o['idx'] = slot

# ------------------------------------------------------------------------------------------------
# scripted histories (coverage obligations)

def scripted(big=False):
    H = []

    def add(hid, img, ops, upc_b, lim=(4, 4, 1), **kw):
        image, upc, bounds = img
        fix_slot(image, ops)
        h = dict(id=hid, src='script', image=image, bounds=bounds, limits=list(lim), ops=ops)
        h.update(kw)
        H.append(h)

    # S1: the regression shapes of C01 on several geometries
    # (G16e: the largest FAT16 volume there is - its last clusters have the numbers 0xFFF0..0xFFF5, just below the bad-cluster mark)
    for gname in ['G16a', 'G32a', 'G16c', 'G32b', 'G16g', 'G32h', 'G16e', 'G16t', 'G32t']:
        img = image_of(gname, tree='T1', nfree=12)
        upc = img[1]
        upb = len(img[2])
        ops = prologue() + [
            # an empty write to a file that owns no cluster yet, a lower cluster freed meanwhile, flush while still empty, then data
            O('open_file', d='d0', name='ZERO.BIN', mode='Create', as_='fz'), O('write', f='fz', n=0), O('delete', d='d0', name='README.TXT'), O('flush', f='fz'),
            O('write', f='fz', n=2), O('seek_start', f='fz', u=0), O('read', f='fz', n=2), O('flush', f='fz'), O('write', f='fz', n=upc), O('close_file', f='fz'),
            O('open_file', d='d0', name='ZERO.BIN', mode='ReadOnly', as_='fz2'), O('read', f='fz2', n=upc + 2), O('close_file', f='fz2'),
            O('open_file', d='d0', name='NEW.BIN', mode='Create', as_='f0'),
            O('write', f='f0', n=3 * upc + 1),            # unaligned end, spans >= 3 clusters
            O('seek_start', f='f0', u=upb),               # block boundary in the middle of the file
            O('write', f='f0', n=1),                      # shorter than a block (0.8.2 regression)
            O('seek_start', f='f0', u=0),
            O('read', f='f0', n=3 * upc + 1),
            O('seek_start', f='f0', u=2 * upc + 1),
            O('seek_cur', f='f0', u=-(upc + 1)),          # backward across a cluster boundary
            O('read', f='f0', n=2),
            O('seek_cur', f='f0', u=-2),
            O('write', f='f0', n=upc + 1),                # write after a backward seek
            O('seek_end', f='f0', u=upc),
            O('seek_end', f='f0', u=-1), O('offset', f='f0'), O('seek_end', f='f0', u=-upc), O('offset', f='f0'), O('seek_end', f='f0', u=upc),   # behind the end (embedded-io `End(+n)`): refused, position kept
            O('read', f='f0', n=upc),                     # ends exactly at end of file
            O('read', f='f0', n=1),                       # at eof
            O('eof', f='f0'), O('length', f='f0'), O('offset', f='f0'),
            O('write', f='f0', n=0),
            O('read', f='f0', n=0),
            O('flush', f='f0'),
            O('open_file', d='d0', name='SECOND.BIN', mode='CreateOrAppend', as_='f1'),
            O('write', f='f1', n=2), O('write', f='f0', n=1), O('write', f='f1', n=upc), O('write', f='f0', n=upc),
            O('seek_start', f='f1', u=0), O('read', f='f1', n=upc + 2), O('seek_start', f='f0', u=0), O('read', f='f0', n=5 * upc),
            O('close_file', f='f1'), O('close_file', f='f0'),
            O('open_file', d='d0', name='NEW.BIN', mode='Append', as_='f2'),   # length multiple of cluster?
            O('write', f='f2', n=upc - 1), O('write', f='f2', n=upc), O('close_file', f='f2'),
            O('open_file', d='d0', name='NEW.BIN', mode='ReadOnly', as_='f3', api='raii'),
            O('read', f='f3', n=2, api='raii'), O('read', f='f3', n=upc, api='eio'), O('seek_start', f='f3', u=1, api='eio'),
            O('write', f='f3', n=1),                      # read-only handle rejects writes
            O('close_file', f='f3', api='raii'),
            # an entry with something in bytes 20..22 (not part of a FAT16 cluster number): extended, truncated, deleted
            O('open_file', d='d0', name='VICTIM.DAT', mode='Append', as_='fv'), O('write', f='fv', n=1), O('close_file', f='fv'),
            O('open_file', d='d0', name='HIWORD.DAT', mode='Append', as_='fh'), O('write', f='fh', n=upc + 1), O('close_file', f='fh'),
            O('open_file', d='d0', name='HIWORD.DAT', mode='Truncate', as_='fh2'), O('write', f='fh2', n=1), O('close_file', f='fh2'),
            O('delete', d='d0', name='HIWORD.DAT'),
            # the same inside a sub-directory (lookups there take another path than in the FAT16 root)
            O('open_dir', d='d0', name='TEST', as_='dt'), O('find', d='dt', name='HIWORD2.DAT'),
            O('open_file', d='dt', name='HIWORD2.DAT', mode='Append', as_='fh3'), O('write', f='fh3', n=upc + 1), O('close_file', f='fh3'),
            O('open_file', d='dt', name='HIWORD2.DAT', mode='Truncate', as_='fh4'), O('close_file', f='fh4'), O('delete', d='dt', name='HIWORD2.DAT'), O('close_dir', d='dt'),
        ] + epilogue()
        add('S1-' + gname, img, ops, upc, log=(gname in ('G16a', 'G32b', 'G16e')))     # (some with a logger at trace level installed)

    # S2: pre-existing fragmented high->low chain, long names, nested dirs, stale handles
    for gname in ['G16a', 'G32a']:
        img = image_of(gname, tree='T2', nfree=6)
        upc = img[1]
        ops = prologue() + [
            # a handle whose only write stays inside the existing length (in-place overwrite): the entry must still be written back
            O('open_file', d='d0', name='A.TXT', mode='Append', as_='fa'), O('seek_start', f='fa', u=0), O('write', f='fa', n=1), O('close_file', f='fa'),
            O('open_file', d='d0', name='A.TXT', mode='Append', as_='fa'), O('seek_start', f='fa', u=1), O('write', f='fa', n=1), O('flush', f='fa'),
            O('seek_start', f='fa', u=0), O('write', f='fa', n=2), O('flush', f='fa'), O('seek_start', f='fa', u=0), O('write', f='fa', n=1), O('close_file', f='fa'),
            O('iterate', d='d0'), O('iterate_lfn', d='d0', buf=780), O('iterate_lfn', d='d0', buf=10),
            O('label', v='v0'),
            O('find', d='d0', name='LONGFI~1.TXT'), O('find', d='d0', name='OLD.DAT'), O('find', d='d0', name='NOPE'),
            O('open_file', d='d0', name='LONGFI~1.TXT', mode='ReadOnly', as_='f0'),
            O('read', f='f0', n=2 * upc), O('seek_start', f='f0', u=upc - 1), O('read', f='f0', n=2), O('close_file', f='f0'),
            O('open_file', d='d0', name='LONGFI~1.TXT', mode='Append', as_='f0'),
            O('write', f='f0', n=2), O('write', f='f0', n=1), O('write', f='f0', n=upc + 1),     # consecutive writes on a high->low chain
            O('seek_start', f='f0', u=upc + 1), O('write', f='f0', n=1), O('write', f='f0', n=1), O('seek_start', f='f0', u=0), O('read', f='f0', n=5 * upc),
            O('seek_start', f='f0', u=1), O('write', f='f0', n=upc), O('flush', f='f0'),
            O('open_dir', d='d0', name='SUB', as_='d1'), O('iterate', d='d1'), O('lookup_all', d='d1'), O('lookup_all', d='d0'),
            O('open_file', d='d1', name='F11.Z', mode='ReadOnly', as_='fl'), O('close_file', f='fl'), O('find', d='d1', name='F10.Z'),
            O('open_dir', d='d1', name='DEEP', as_='d2'), O('iterate', d='d2'), O('lookup_all', d='d2'),
            O('open_dir', d='d2', name='..', as_='d3'), O('iterate', d='d3'),
            O('open_dir', d='d1', name='..', as_='d4'),
            O('open_dir', d='d0', name='.', as_='d5'), O('close_dir', d='d5'), O('close_dir', d='d4'),
            O('open_file', d='d1', name='RO.TXT', mode='Append', as_='fx'),
            O('open_file', d='d1', name='RO.TXT', mode='ReadOnly', as_='f1'), O('read', f='f1', n=3),
            O('open_file', d='d1', name='RO.TXT', mode='ReadOnly', as_='fy'),
            O('delete', d='d1', name='RO.TXT'),
            O('open_file', d='d1', name='DEEP', mode='ReadOnly', as_='fz'),
            O('delete', d='d1', name='DEEP'), O('open_dir', d='d1', name='ZC.DAT', as_='dz'),
            O('open_file', d='d1', name='ZC.DAT', mode='Truncate', as_='f2'), O('write', f='f2', n=1), O('close_file', f='f2'),
            O('open_file', d='d2', name='X.BIN', mode='CreateOrTruncate', as_='f3'), O('write', f='f3', n=upc + 1),
            O('close_file', f='f1'), O('read', f='f1', n=1), O('flush', f='f1'), O('close_file', f='f1'),
            O('close_file', f='f3'), O('close_file', f='f0'),
            O('close_dir', d='d3'), O('close_dir', d='d2'), O('iterate', d='d2'), O('find', d='d2', name='X.BIN'),
            O('close_dir', d='d1'),
        ] + epilogue()
        add('S2-' + gname, img, ops, upc)

    # S3: fill to exactly full and back, twice; delete of multi-cluster files; truncate 1/2/many
    for gname, nfree in [('G16a', 4), ('G16b', 4), ('G32a', 5), ('G32b', 4), ('G16c', 3), ('G16g', 3), ('G32c', 3), ('G16e', 6), ('G16t', 3), ('G32t', 3), ('G32r', 4), ('G32s', 4)]:
        img = image_of(gname, tree='T0', nfree=nfree, info=dict(info_free='unknown') if gname == 'G32b' else None)
        upc = img[1]
        ops = prologue()
        for rnd in range(2):
            ops += [O('open_file', d='d0', name='FILL.BIN', mode='CreateOrTruncate', as_='f0'),
                    O('write', f='f0', n=upc), O('write', f='f0', n=(nfree - 1) * upc),   # exactly full (FAT32 root takes none of the free)
                    O('write', f='f0', n=1),                                               # does not fit
                    O('seek_start', f='f0', u=0), O('read', f='f0', n=nfree * upc + 1),
                    O('open_file', d='d0', name='MORE.BIN', mode='Create', as_='f1'), O('write', f='f1', n=1), O('close_file', f='f1'),
                    O('mkdir', d='d0', name='NODIR'),
                    O('close_file', f='f0'),
                    O('delete', d='d0', name='MORE.BIN'),
                    O('open_file', d='d0', name='FILL.BIN', mode='Truncate', as_='f0'), O('close_file', f='f0'),
                    O('open_file', d='d0', name='TWO.BIN', mode='Create', as_='f2'), O('write', f='f2', n=2 * upc), O('close_file', f='f2'),
                    O('open_file', d='d0', name='TWO.BIN', mode='Truncate', as_='f2'), O('write', f='f2', n=1), O('close_file', f='f2'),
                    O('delete', d='d0', name='TWO.BIN'), O('delete', d='d0', name='FILL.BIN'),
                    O('mkdir', d='d0', name='DIR%d' % rnd)]
        ops += epilogue()
        add('S3-' + gname, img, ops, upc)

    # S4: root directory filled to the last slot (FAT16) / directory growth (FAT32 and sub-directory)
    img = image_of('G16b', tree='T0', nfree=4)
    ops = prologue() + [x for i in range(17) for x in (O('open_file', d='d0', name='N%02d.TXT' % i, mode='Create', as_='f0'), O('close_file', f='f0'))]
    ops += [O('mkdir', d='d0', name='MORE'), O('delete', d='d0', name='N03.TXT'), O('mkdir', d='d0', name='SUBD'),
            O('open_dir', d='d0', name='SUBD', as_='d1')]
    for i in range(15):
        ops += [O('open_file', d='d1', name='M%02d.TXT' % i, mode='Create', as_='f0'), O('close_file', f='f0')]
        if i == 13:
            # the directory cluster is exactly full: no end marker anywhere in it
            ops += [O('iterate', d='d1'), O('lookup_all', d='d1'), O('find', d='d1', name='NOPE.TXT'), O('iterate_lfn', d='d1')]
    ops += [O('iterate', d='d1'), O('lookup_all', d='d1'), O('lookup_all', d='d0'), O('close_dir', d='d1')] + epilogue()
    add('S4-G16b', img, ops, img[1])
    img = image_of('G32a', tree='T0', nfree=5)
    ops = prologue() + [x for i in range(17) for x in (O('open_file', d='d0', name='N%02d.TXT' % i, mode='Create', as_='f0'), O('write', f='f0', n=1 if i % 8 == 0 else 0), O('close_file', f='f0'))]
    ops += [O('iterate', d='d0'), O('lookup_all', d='d0'), O('delete', d='d0', name='N16.TXT'), O('find', d='d0', name='N16.TXT'), O('find', d='d0', name='N15.TXT')] + epilogue()
    add('S4-G32a', img, ops, img[1])

    # S5: handles, limits, re-entrancy (C08), on several limit tuples and id offsets
    for lim, off in [((1, 1, 1), 5000), ((2, 2, 2), 0), ((3, 2, 1), 4294967293), ((4, 4, 1), 4294967290), ((8, 8, 4), 7)]:
        img = image_of('G16a', tree='T1', nfree=4)
        D, F, V = lim
        ops = [O('open_volume', idx=0, as_='v0'), O('open_volume', idx=0, as_='vdup'), O('open_volume', idx=1, as_='vnone'),
               O('has_open')]
        ops += [O('open_root', v='v0', as_='r%d' % i) for i in range(D + 1)]
        ops += [O('has_open'), O('close_volume', v='v0')]
        # (the directory table is full: change_dir needs a free slot for the moment both directories are open)
        ops += [O('change_dir', d='r0', name='README.TXT'), O('iterate', d='r0'), O('change_dir', d='r0', name='TEST'), O('iterate', d='r0')]
        ops += [O('open_file', d='r0', name='F%d.TXT' % i, mode='Create', as_='f%d' % i) for i in range(F + 1)]
        # (the file table is full: a truncating or creating open is refused before it touches anything)
        ops += [O('open_file', d='r0', name='README.TXT', mode='Truncate', as_='ft'), O('open_file', d='r0', name='README.TXT', mode='CreateOrTruncate', as_='ft2'),
                O('open_file', d='r0', name='EXTRA.TXT', mode='CreateOrAppend', as_='ft3'), O('find', d='r0', name='README.TXT'), O('find', d='r0', name='EXTRA.TXT')]
        ops += [O('iterate', d='r0', reent=True), O('iterate_lfn', d='r0', reent=True, buf=64), O('has_open')]
        ops += [O('mkdir', d='r0', name='MK')]
        # close in first / middle / last order, then stale uses of every handle-taking op
        order = list(range(F))
        if F >= 3:
            order = [1, 0] + list(range(2, F))
        for i in order:
            ops += [O('close_file', f='f%d' % i)]
        ops += [O('read', f='f0', n=0), O('write', f='f0', n=0), O('read', f='f0', n=0, api='eio'), O('write', f='f0', n=0, api='raii'),
                O('read', f='f0', n=1), O('write', f='f0', n=1), O('flush', f='f0'), O('close_file', f='f0'), O('seek_start', f='f0', u=0),
                O('seek_cur', f='f0', u=0), O('seek_end', f='f0', u=0), O('length', f='f0'), O('offset', f='f0'), O('eof', f='f0')]
        ops += [O('open_file', d='r0', name='F0.TXT', mode='ReadOnly', as_='g0'), O('open_file', d='r0', name='F0.TXT', mode='ReadOnly', as_='g1'),
                O('delete', d='r0', name='F0.TXT'), O('close_file', f='g0'), O('delete', d='r0', name='F0.TXT')]
        for i in range(1, D):
            ops += [O('close_dir', d='r%d' % i)]
        ops += [O('close_dir', d='r0'), O('has_open')]
        ops += [O('close_dir', d='r0'), O('iterate', d='r0'), O('find', d='r0', name='X'), O('open_dir', d='r0', name='TEST', as_='dx'),
                O('open_file', d='r0', name='X', mode='Create', as_='fx'), O('delete', d='r0', name='X'), O('mkdir', d='r0', name='X'),
                O('iterate_lfn', d='r0')]
        ops += [O('close_volume', v='v0'), O('has_open'), O('close_volume', v='v0'), O('open_root', v='v0', as_='rz'), O('label', v='v0'),
                O('open_volume', idx=0, as_='v1'), O('open_root', v='v1', as_='r0'), O('iterate', d='r0'), O('close_dir', d='r0'), O('close_volume', v='v1'), O('remount')]
        add('S5-%d%d%d' % lim, img, ops, img[1], lim=lim, id_offset=off)

    # S6: the mode x state matrix of C07 (also after delete-and-recreate), invalid names
    for gname in ['G16a', 'G32a']:
        img = image_of(gname, tree='T2', nfree=6)
        # files with the hidden / system bits (writable) and a hidden read-only one, a zero-length file that owns a cluster
        img[0]['vols'][0]['root'] += [f('HIDSYS.DAT', attr=0x26), f('HIDRO.DAT', attr=0x23)]
        # names another system may have left: a space inside the base name / the extension (only trailing spaces are padding)
        img[0]['vols'][0]['root'] += [f('AB CD.TXT'), f('EXT.A B'), f('A B.C D', attr=0x21)]
        ops = prologue() + [O('open_dir', d='d0', name='SUB', as_='d1')]
        modes = ['ReadOnly', 'Append', 'Truncate', 'Create', 'CreateOrTruncate', 'CreateOrAppend']
        k = 0
        for target, dirv in [('MISSING.X', 'd0'), ('A.TXT', 'd0'), ('RO.TXT', 'd1'), ('SUB', 'd0'), ('EMPTY.DAT', 'd0'), ('HIDSYS.DAT', 'd0'), ('HIDRO.DAT', 'd0'), ('ZC.DAT', 'd1'), ('.', 'd1'), ('..', 'd1'), ('VERIFVOL', 'd0')]:
            for m in modes:
                ops += [O('open_file', d=dirv, name=target, mode=m, as_='t%d' % k), O('write', f='t%d' % k, n=1), O('close_file', f='t%d' % k)]
                if target == 'MISSING.X':
                    ops += [O('delete', d=dirv, name=target)]
                k += 1
        # the same name in two directories: one open, the other deleted / a missing one deleted
        ops += [O('open_file', d='d1', name='SAME.TXT', mode='Create', as_='s1'), O('write', f='s1', n=1),
                O('open_file', d='d0', name='SAME.TXT', mode='Create', as_='s0'), O('close_file', f='s0'),
                O('delete', d='d0', name='SAME.TXT'), O('delete', d='d0', name='SAME.TXT'), O('delete', d='d0', name='RO.TXT'), O('delete', d='d1', name='SAME.TXT'),
                O('close_file', f='s1'), O('delete', d='d1', name='SAME.TXT')]
        ops += [O('delete', d='d0', name='VERIFVOL'), O('mkdir', d='d0', name='VERIFVOL'), O('open_dir', d='d0', name='VERIFVOL', as_='dlab'), O('find', d='d0', name='VERIFVOL'), O('iterate', d='d0')]
        ops += [O('open_file', d='d0', name='A.TXT', mode='ReadOnly', as_='held')]
        for m in modes:
            ops += [O('open_file', d='d0', name='A.TXT', mode=m, as_='t%d' % k)]
            k += 1
        ops += [O('delete', d='d0', name='A.TXT'), O('close_file', f='held')]
        for bad in ['BAD*NAME', 'TOOLONGNAME.TXT', 'A.TOOLONG', 'sp ace', '.LEAD', 'tab\tx', 'unił', 'a.b.c', 'plus+', 'q?']:
            ops += [O('open_file', d='d0', name=bad, mode='Create', as_='t%d' % k), O('mkdir', d='d0', name=bad), O('delete', d='d0', name=bad),
                    O('find', d='d0', name=bad), O('open_dir', d='d0', name=bad, as_='dbad')]
            k += 1
        for pre in ['AB.TXT', 'EXT.A', 'A.C', 'A', 'AB', 'EXT', 'A B.C']:
            ops += [O('find', d='d0', name=pre), O('open_file', d='d0', name=pre, mode='ReadOnly', as_='t%d' % k), O('open_dir', d='d0', name=pre, as_='dpre'), O('delete', d='d0', name=pre)]
            k += 1
        ops += [O('iterate', d='d0')]
        # change_dir (the wrapper's in-place re-targeting of a directory handle): onto a file, a missing name, a label, a
        # directory and back; a refusal leaves the handle where it was
        ops += [O('open_dir', d='d0', name='SUB', as_='dc'), O('change_dir', d='dc', name='RO.TXT'), O('iterate', d='dc'), O('find', d='dc', name='RO.TXT'),
                O('change_dir', d='dc', name='NOPE'), O('iterate', d='dc'), O('change_dir', d='dc', name='DEEP'), O('iterate', d='dc'), O('find', d='dc', name='X.BIN'),
                O('change_dir', d='dc', name='X.BIN'), O('iterate', d='dc'), O('change_dir', d='dc', name='..'), O('iterate', d='dc'), O('change_dir', d='dc', name='.'),
                O('change_dir', d='dc', name='..'), O('iterate', d='dc'), O('change_dir', d='dc', name='VERIFVOL'), O('change_dir', d='dc', name='EMPTY.DAT'), O('iterate', d='dc'),
                O('find', d='dc', name='A.TXT'), O('open_file', d='dc', name='CD.TXT', mode='Create', as_='fcd'), O('write', f='fcd', n=1), O('close_file', f='fcd'),
                O('close_dir', d='dc'), O('change_dir', d='dc', name='SUB')]
        ops += [O('open_file', d='d0', name='lower.txt', mode='Create', as_='lc'), O('close_file', f='lc'), O('find', d='d0', name='LOWER.TXT'),
                O('open_file', d='d0', name='Lower.Txt', mode='Create', as_='lc2'),
                O('mkdir', d='d0', name='SUB'), O('mkdir', d='d0', name='A.TXT'), O('mkdir', d='d0', name='newdir'),
                O('open_dir', d='d0', name='NEWDIR', as_='dn'), O('iterate', d='dn'), O('open_dir', d='dn', name='..', as_='dnp'), O('iterate', d='dnp'),
                O('close_dir', d='dnp'), O('close_dir', d='dn'), O('close_dir', d='d1')] + epilogue()
        add('S6-' + gname, img, ops, img[1], lim=(4, 4, 1))

    # S9: a chain that runs from high to low cluster numbers because lower clusters were freed meanwhile
    for gname in ['G16a', 'G32a', 'G16c']:
        img = image_of(gname, tree='T0', nfree=8, window_mid=(gname == 'G16a'))
        upc = img[1]
        ops = prologue() + [O('open_file', d='d0', name='A.BIN', mode='Create', as_='fa'), O('write', f='fa', n=2 * upc), O('close_file', f='fa'),
                            O('open_file', d='d0', name='B.BIN', mode='Create', as_='fb'), O('write', f='fb', n=1),
                            O('open_file', d='d0', name='A.BIN', mode='Truncate', as_='fa2'), O('close_file', f='fa2'), O('delete', d='d0', name='A.BIN'),
                            O('write', f='fb', n=upc + 1), O('write', f='fb', n=1), O('write', f='fb', n=upc), O('write', f='fb', n=2),
                            O('seek_start', f='fb', u=0), O('read', f='fb', n=4 * upc), O('seek_end', f='fb', u=1), O('write', f='fb', n=3),
                            O('seek_start', f='fb', u=0), O('read', f='fb', n=4 * upc), O('close_file', f='fb')] + epilogue()
        add('S9-' + gname, img, ops, upc)

    # S10: entries beyond the first block of a directory: FAT16 root of two blocks, directory cluster of several blocks
    img = image_of('G16a', tree='T0', nfree=6)
    ops = prologue()
    for i in range(20):
        ops += [O('open_file', d='d0', name='E%02d.TXT' % i, mode='Create', as_='e%d' % i), O('write', f='e%d' % i, n=1 if i % 3 == 0 else 0), O('close_file', f='e%d' % i)]
    ops += [O('iterate', d='d0'), O('lookup_all', d='d0'), O('open_file', d='d0', name='E18.TXT', mode='Append', as_='x'), O('write', f='x', n=2), O('close_file', f='x'),
            O('delete', d='d0', name='E17.TXT'), O('mkdir', d='d0', name='LATE')] + epilogue()
    add('S10-G16a', img, ops, img[1])
    img = image_of('G16c', tree='T0', nfree=4, bounds=[0, 256])
    ops = prologue() + [O('mkdir', d='d0', name='BIGD'), O('open_dir', d='d0', name='BIGD', as_='d1')]
    for i in range(20):
        ops += [O('open_file', d='d1', name='E%02d.TXT' % i, mode='Create', as_='e%d' % i), O('write', f='e%d' % i, n=1 if i % 4 == 0 else 0), O('close_file', f='e%d' % i)]
    ops += [O('iterate', d='d1'), O('lookup_all', d='d1'), O('open_file', d='d1', name='E19.TXT', mode='Truncate', as_='x'), O('write', f='x', n=3), O('close_file', f='x'),
            O('mkdir', d='d1', name='SUBSUB'), O('open_dir', d='d1', name='SUBSUB', as_='d2'), O('iterate', d='d2'), O('close_dir', d='d2'), O('close_dir', d='d1')] + epilogue()
    add('S10-G16c', img, ops, img[1])

    # S11: appending to / extending a file whose length is an exact multiple of the cluster size through a handle whose
    # cursor is not on the last cluster (fresh append handle; seek back, read, seek to the end, write)
    for gname in ['G16a', 'G32a', 'G16c', 'G32b']:
        img = image_of(gname, tree='T0', nfree=10)
        upc = img[1]
        ops = prologue() + [O('open_file', d='d0', name='A.BIN', mode='Create', as_='fa'), O('write', f='fa', n=2 * upc), O('close_file', f='fa'),
                            O('open_file', d='d0', name='A.BIN', mode='Append', as_='fa2'), O('write', f='fa2', n=1), O('seek_start', f='fa2', u=0), O('read', f='fa2', n=3 * upc),
                            O('close_file', f='fa2'),
                            O('open_file', d='d0', name='B.BIN', mode='Create', as_='fb'), O('write', f='fb', n=3 * upc), O('seek_start', f='fb', u=0), O('read', f='fb', n=1),
                            O('seek_end', f='fb', u=0), O('write', f='fb', n=upc), O('seek_start', f='fb', u=upc), O('read', f='fb', n=1), O('seek_end', f='fb', u=0), O('write', f='fb', n=1),
                            O('seek_start', f='fb', u=0), O('read', f='fb', n=5 * upc), O('close_file', f='fb'),
                            O('open_file', d='d0', name='B.BIN', mode='ReadOnly', as_='fb2'), O('read', f='fb2', n=5 * upc), O('close_file', f='fb2')] + epilogue()
        add('S11-' + gname, img, ops, upc)

    # S12: truncate-on-open while lower clusters are free (the old first cluster is not the one allocated next)
    for gname in ['G16a', 'G32a', 'G32b', 'G16c']:
        img = image_of(gname, tree='T0', nfree=8)
        upc = img[1]
        ops = prologue() + [O('open_file', d='d0', name='A.TXT', mode='Create', as_='fa'), O('write', f='fa', n=1), O('close_file', f='fa'),
                            O('open_file', d='d0', name='B.TXT', mode='Create', as_='fb'), O('write', f='fb', n=upc + 1), O('close_file', f='fb'),
                            O('delete', d='d0', name='A.TXT'),
                            O('open_file', d='d0', name='B.TXT', mode='Truncate', as_='fb2'), O('write', f='fb2', n=2), O('seek_start', f='fb2', u=0), O('read', f='fb2', n=3),
                            O('close_file', f='fb2'),
                            O('open_file', d='d0', name='C.TXT', mode='Create', as_='fc'), O('write', f='fc', n=upc), O('close_file', f='fc'),
                            O('open_file', d='d0', name='B.TXT', mode='CreateOrTruncate', as_='fb3'), O('write', f='fb3', n=2 * upc), O('close_file', f='fb3'),
                            # truncated, touched by an empty write only, closed: an empty file that owned clusters
                            O('open_file', d='d0', name='C.TXT', mode='Truncate', as_='fc2'), O('write', f='fc2', n=0), O('flush', f='fc2'), O('close_file', f='fc2'),
                            O('open_file', d='d0', name='D.TXT', mode='Create', as_='fd'), O('write', f='fd', n=1), O('close_file', f='fd'),
                            O('open_file', d='d0', name='B.TXT', mode='ReadOnly', as_='fb4'), O('read', f='fb4', n=2 * upc + 1), O('close_file', f='fb4')] + epilogue()
        add('S12-' + gname, img, ops, upc)

    # S13: chains that cross a FAT sector boundary (free window in the middle of the FAT: entries 126.. / 254..)
    for gname in ['G32a', 'G16a', 'G32b']:
        img = image_of(gname, tree='T0', nfree=7, window_mid=True)
        upc = img[1]
        ops = prologue() + [O('open_file', d='d0', name='A.BIN', mode='Create', as_='fa'), O('write', f='fa', n=upc), O('write', f='fa', n=upc), O('write', f='fa', n=upc + 1),
                            O('close_file', f='fa'),
                            O('open_file', d='d0', name='B.BIN', mode='Create', as_='fb'), O('write', f='fb', n=1), O('close_file', f='fb'),
                            O('open_file', d='d0', name='A.BIN', mode='Append', as_='fa2'), O('write', f='fa2', n=upc), O('close_file', f='fa2'),
                            O('mkdir', d='d0', name='D'), O('delete', d='d0', name='B.BIN'),
                            O('open_file', d='d0', name='A.BIN', mode='ReadOnly', as_='fa3'), O('read', f='fa3', n=5 * upc), O('close_file', f='fa3')] + epilogue()
        add('S13-' + gname, img, ops, upc)

    # S14: FAT32 clusters whose number has a zero low half (65536): an existing directory there, and a new one allocated there
    v, upc, bounds = geom('G32e', tree='T0', nfree=2, bounds=[0, 256])
    v['root'] = [f('README.TXT', [3], 1), d('BIGD', [65536], [f('IN.DAT', [4], 1), d('SUBD', [6], [f('DEEP.DAT', [7], 1)])]), f('EMPTY.DAT')]
    v['window'] = sorted(set([2, 3, 4, 6, 7, 65536, 65537, 65538]))
    ops = prologue() + [O('iterate', d='d0'), O('lookup_all', d='d0'), O('open_dir', d='d0', name='BIGD', as_='d1'), O('iterate', d='d1'), O('lookup_all', d='d1'),
                        O('open_file', d='d1', name='IN.DAT', mode='ReadOnly', as_='f0'), O('read', f='f0', n=2), O('close_file', f='f0'),
                        O('open_dir', d='d1', name='SUBD', as_='d2'), O('iterate', d='d2'), O('open_dir', d='d2', name='..', as_='d3'), O('iterate', d='d3'), O('lookup_all', d='d3'),
                        O('close_dir', d='d3'), O('close_dir', d='d2'),
                        O('open_file', d='d1', name='NEW.DAT', mode='Create', as_='f1'), O('write', f='f1', n=1), O('close_file', f='f1'), O('iterate', d='d1'),
                        O('close_dir', d='d1')] + epilogue()
    add('S14-G32e-existing', (dict(vols=[v]), upc, bounds), ops, upc)
    v, upc, bounds = geom('G32e', tree='T0', nfree=2, bounds=[0, 256])
    v['root'] = [f('README.TXT', [3], 1)]
    v['window'] = sorted(set([2, 3, 65536, 65537, 65538]))
    v['info_next'] = 'first'
    ops = prologue() + [O('mkdir', d='d0', name='NEWD'), O('open_dir', d='d0', name='NEWD', as_='d1'), O('iterate', d='d1'),
                        O('open_file', d='d1', name='X.DAT', mode='Create', as_='f1'), O('write', f='f1', n=2), O('close_file', f='f1'), O('iterate', d='d1'), O('lookup_all', d='d1'),
                        O('open_dir', d='d1', name='.', as_='d2'), O('iterate', d='d2'), O('close_dir', d='d2'), O('close_dir', d='d1'), O('iterate', d='d0'), O('lookup_all', d='d0')] + epilogue()
    add('S14-G32e-new', (dict(vols=[v]), upc, bounds), ops, upc)

    # S15: the first write through a handle does not fit (partial progress, then out of space); flush / close afterwards
    for gname in ['G16a', 'G32a', 'G16c', 'G32b']:
        img = image_of(gname, tree='T0', nfree=3)
        upc = img[1]
        ops = prologue() + [O('open_file', d='d0', name='BIG.BIN', mode='Create', as_='f0'), O('write', f='f0', n=4 * upc + 1), O('flush', f='f0'), O('length', f='f0'),
                            O('seek_start', f='f0', u=0), O('read', f='f0', n=5 * upc),
                            O('open_file', d='d0', name='EMPTY1.BIN', mode='Create', as_='x1'), O('close_file', f='x1'),   # later writes elsewhere: what was flushed must stay
                            O('close_file', f='f0'), O('mkdir', d='d0', name='LATER'),
                            O('open_file', d='d0', name='BIG.BIN', mode='ReadOnly', as_='f1'), O('read', f='f1', n=5 * upc), O('close_file', f='f1'),
                            O('delete', d='d0', name='BIG.BIN'),
                            O('open_file', d='d0', name='K.BIN', mode='Create', as_='f2'), O('write', f='f2', n=upc), O('close_file', f='f2'),
                            O('open_file', d='d0', name='K.BIN', mode='Append', as_='f3'), O('write', f='f3', n=3 * upc), O('close_file', f='f3'),
                            O('open_file', d='d0', name='L.BIN', mode='Create', as_='f4'), O('write', f='f4', n=1), O('close_file', f='f4')] + epilogue()
        add('S15-' + gname, img, ops, upc)

    # S16: FAT32, mkdir when the parent has no free slot and only one cluster is free: the new directory's cluster is taken
    # and given back; the stored free count must not drift
    for gname, info in [('G32a', dict(info_free='correct', info_next='first')), ('G32b', dict(info_free='correct', info_next='first'))]:
        img = image_of(gname, tree='T0', nfree=2, info=info)
        upc = img[1]
        ops = prologue()
        for i in range(16):
            ops += [O('open_file', d='d0', name='N%02d.TXT' % i, mode='Create', as_='n%d' % i), O('close_file', f='n%d' % i)]
        ops += [O('open_file', d='d0', name='N00.TXT', mode='Append', as_='g'), O('write', f='g', n=1), O('close_file', f='g'),
                O('mkdir', d='d0', name='NODIR'), O('mkdir', d='d0', name='NODIR2'), O('open_file', d='d0', name='N01.TXT', mode='Append', as_='g2'), O('write', f='g2', n=1), O('flush', f='g2'),
                O('close_file', f='g2'), O('delete', d='d0', name='N00.TXT'), O('mkdir', d='d0', name='NOW')] + epilogue()
        add('S16-' + gname, img, ops, upc)

    # S17: a new directory on volumes with several blocks per cluster, filled beyond its first block(s): every block of the
    # (previously used, poisoned) cluster must have been wiped
    for gname in ['G16f', 'G32f', 'G16c', 'G16g']:
        img = image_of(gname, tree='T0', nfree=4, bounds=[0, 256])
        bpc = img[0]['vols'][0]['bpc']
        ops = prologue() + [O('mkdir', d='d0', name='FULL'), O('open_dir', d='d0', name='FULL', as_='d1')]
        for i in range(16 * bpc - 2 if bpc <= 2 else 16 * (bpc - 1) + 1):
            ops += [O('open_file', d='d1', name='E%03d.X' % i, mode='Create', as_='e%d' % i), O('close_file', f='e%d' % i)]
        ops += [O('iterate', d='d1'), O('lookup_all', d='d1'), O('close_dir', d='d1')] + epilogue()
        add('S17-' + gname, img, ops, img[1])

    # S18: names whose first character is U+00E5 (stored as 0x05: 0xE5 marks a deleted entry)
    for gname in ['G16a', 'G32a']:
        img = image_of(gname, tree='T1', nfree=4)
        img[0]['vols'][0]['root'] += [f('\u00e5X.DAT', [20], 1)]
        img[0]['vols'][0]['window'] = sorted(set(img[0]['vols'][0]['window'] + [20]))
        ops = prologue() + [O('iterate', d='d0'), O('lookup_all', d='d0'), O('find', d='d0', name='\u00e5X.DAT'),
                            O('open_file', d='d0', name='\u00e5X.DAT', mode='ReadOnly', as_='f0'), O('read', f='f0', n=2), O('close_file', f='f0'),
                            O('open_file', d='d0', name='\u00e5B.TXT', mode='Create', as_='f1'), O('write', f='f1', n=2), O('close_file', f='f1'),
                            O('iterate', d='d0'), O('lookup_all', d='d0'), O('find', d='d0', name='\u00e5B.TXT'),
                            O('open_file', d='d0', name='\u00e5B.TXT', mode='Create', as_='f2'),          # exists
                            O('open_file', d='d0', name='\u00e5B.TXT', mode='CreateOrAppend', as_='f3'), O('write', f='f3', n=1), O('close_file', f='f3'),
                            O('mkdir', d='d0', name='\u00e5B.TXT'), O('mkdir', d='d0', name='\u00e5DIR'), O('mkdir', d='d0', name='\u00e5DIR'),
                            O('open_dir', d='d0', name='\u00e5DIR', as_='d1'), O('iterate', d='d1'), O('close_dir', d='d1'),
                            O('delete', d='d0', name='\u00e5X.DAT'), O('find', d='d0', name='\u00e5X.DAT'), O('iterate', d='d0'), O('lookup_all', d='d0'),
                            O('delete', d='d0', name='\u00e5B.TXT'), O('iterate', d='d0')] + epilogue()
        add('S18-' + gname, img, ops, img[1])

    # S19: a directory of more than 2048 entries (130 clusters, fragmented chain): listing and lookup far into it
    if big:
        for gname in (['G16a', 'G32a', 'G16d', 'G16c'] if big == 'full' else ['G16a', 'G16d']):
            v, upc, bounds = geom(gname, tree='T0', nfree=2, bounds=[0])
            base = 40
            chain = [base + 2 * i for i in range(65)] + [base + 2 * i + 1 for i in range(65)]      # 130 clusters, interleaved
            if v['bpc'] > 1:
                # (large clusters: 2048 slots in each of 128 blocks, 128 in each of 8: the directory still needs more than one)
                need = (2072 + 16 * v['bpc'] - 1) // (16 * v['bpc'])
                chain = [base + 2 * i for i in range(need)]
            ents = [f('B%04d.DAT' % i) for i in range(2070)]
            v['root'] = [d('BIGDIR', chain, ents), f('AFTER.TXT')]
            v['window'] = sorted(set(v['window'] + chain))
            if big != 'full':
                ops = prologue() + [O('open_dir', d='d0', name='BIGDIR', as_='d1'), O('iterate', d='d1'), O('find', d='d1', name='B2069.DAT'),
                                    O('open_file', d='d1', name='B2069.DAT', mode='Create', as_='fx'), O('open_file', d='d1', name='B2068.DAT', mode='ReadOnly', as_='fy'), O('close_file', f='fy'),
                                    O('mkdir', d='d1', name='B2067.DAT'), O('delete', d='d1', name='B2066.DAT'), O('close_dir', d='d1'),
                                    O('close_dir', d='d0'), O('close_volume', v='v0')]
                add('S19-' + gname, (dict(vols=[v]), upc, bounds), ops, upc)
                continue
            ops = prologue() + [O('open_dir', d='d0', name='BIGDIR', as_='d1'), O('iterate', d='d1'), O('find', d='d1', name='B2069.DAT'), O('find', d='d1', name='B2048.DAT'),
                                O('find', d='d1', name='NOPE.DAT'), O('iterate_lfn', d='d1'),
                                O('open_file', d='d1', name='B2050.DAT', mode='Append', as_='f0'), O('write', f='f0', n=1), O('close_file', f='f0'),
                                O('delete', d='d1', name='B2047.DAT'), O('open_file', d='d1', name='NEW.DAT', mode='Create', as_='f1'), O('close_file', f='f1'),
                                O('iterate', d='d1'), O('close_dir', d='d1')] + epilogue()
            add('S19-' + gname, (dict(vols=[v]), upc, bounds), ops, upc)

    # S20: a file of more than 255 clusters on a volume with some 300 free clusters (chains, counters and free counts
    # beyond 8 bits; FAT entries across two FAT sectors), written, read, truncated, deleted
    if big:
        for gname in (['G16a', 'G32a'] if big == 'full' else ['G16a']):
            img = image_of(gname, tree='T0', nfree=300, bounds=[0])
            ops = prologue() + [O('open_file', d='d0', name='LONG.BIN', mode='Create', as_='f0'), O('write', f='f0', n=130), O('write', f='f0', n=131),
                                O('seek_start', f='f0', u=255), O('read', f='f0', n=3), O('seek_start', f='f0', u=0), O('read', f='f0', n=261), O('close_file', f='f0')]
            if big == 'full':
                ops += [O('open_file', d='d0', name='OTHER.BIN', mode='Create', as_='f1'), O('write', f='f1', n=2), O('close_file', f='f1'),
                        O('open_file', d='d0', name='LONG.BIN', mode='Append', as_='f2'), O('write', f='f2', n=3), O('seek_start', f='f2', u=258), O('read', f='f2', n=6),
                        O('close_file', f='f2')]
            if big == 'full':
                ops += [O('open_file', d='d0', name='LONG.BIN', mode='Truncate', as_='f3'), O('write', f='f3', n=2), O('close_file', f='f3'), O('delete', d='d0', name='LONG.BIN'),
                        O('open_file', d='d0', name='AGAIN.BIN', mode='Create', as_='f4'), O('write', f='f4', n=290), O('close_file', f='f4')]
            else:
                ops += [O('delete', d='d0', name='LONG.BIN')]
            ops += epilogue()
            add('S20-' + gname, img, ops, img[1])

    # S21: 128 blocks per cluster: a new directory (128 block writes before it may be linked), entries in it, a file across two clusters
    for gname in ['G16d', 'G32d']:
        img = image_of(gname, tree='T0', nfree=4, bounds=[0])
        upc = img[1]
        ops = prologue() + [O('mkdir', d='d0', name='BIG'), O('open_dir', d='d0', name='BIG', as_='d1'),
                            O('open_file', d='d1', name='A.BIN', mode='Create', as_='f0'), O('write', f='f0', n=upc + 3), O('seek_start', f='f0', u=upc - 1), O('read', f='f0', n=4),
                            O('close_file', f='f0'), O('mkdir', d='d1', name='SUB'), O('iterate', d='d1'), O('lookup_all', d='d1'),
                            O('open_file', d='d1', name='A.BIN', mode='Truncate', as_='f1'), O('write', f='f1', n=1), O('close_file', f='f1'),
                            O('delete', d='d1', name='A.BIN'), O('close_dir', d='d1')] + epilogue()
        add('S21-' + gname, img, ops, upc)

    # S22: volumes closed in another order than they were opened, while a file on the volume opened last stays in use
    img = image_multi()
    upc = img[1]
    ops = [O('open_volume', idx=0, as_='v0'), O('open_volume', idx=1, as_='v1'), O('open_volume', idx=2, as_='v2'),
           O('open_root', v='v2', as_='c'), O('open_file', d='c', name='LAST.BIN', mode='Create', as_='fc'), O('write', f='fc', n=upc + 1),
           O('open_root', v='v1', as_='b'), O('open_file', d='b', name='MID.BIN', mode='Create', as_='fb'), O('write', f='fb', n=2),
           O('close_volume', v='v0'), O('write', f='fc', n=1), O('seek_start', f='fc', u=0), O('read', f='fc', n=upc + 2), O('write', f='fb', n=1),
           O('open_volume', idx=0, as_='v0b'), O('open_root', v='v0b', as_='a'), O('open_file', d='a', name='README.TXT', mode='ReadOnly', as_='fa'), O('read', f='fa', n=2),
           O('seek_start', f='fc', u=1), O('read', f='fc', n=upc), O('write', f='fc', n=2), O('close_file', f='fb'), O('close_dir', d='b'), O('close_volume', v='v1'),
           O('read', f='fa', n=1), O('write', f='fc', n=1), O('seek_start', f='fc', u=0), O('read', f='fc', n=2 * upc), O('close_file', f='fc'), O('close_file', f='fa'),
           O('close_dir', d='c'), O('close_dir', d='a'), O('close_volume', v='v2'), O('close_volume', v='v0b'), O('remount')]
    add('S22-multi', img, ops, upc, lim=(8, 8, 4))

    # S23: a FAT16 root directory of 2048 entries (64 KiB: the byte count no longer fits 16 bits)
    img = image_of('G16h', tree='T1', nfree=3, bounds=[0])
    ops = prologue() + [O('iterate', d='d0'), O('find', d='d0', name='README.TXT'), O('open_file', d='d0', name='NEW.TXT', mode='Create', as_='f0'), O('write', f='f0', n=1),
                        O('close_file', f='f0'), O('open_dir', d='d0', name='TEST', as_='d1'), O('iterate', d='d1'), O('close_dir', d='d1'), O('delete', d='d0', name='EMPTY.DAT'),
                        O('close_dir', d='d0'), O('close_volume', v='v0')]
    add('S23-G16h', img, ops, img[1])

    # S24: stale entries BEHIND the end-of-directory marker, in a later block (a medium that is not well-formed on purpose:
    # judged for results only): the directory ends at the marker for listing and for lookup alike
    for gname in ['G16a', 'G32a', 'G16c']:
        v, upc, bounds = geom(gname, tree='T0', nfree=3)
        ghosts = [dict(t='raw', hex='00' * 32) for _ in range(15)] + [f('GHOST.TXT', [3 if gname != 'G32a' else 4], 1)]
        if v['fat32'] or gname == 'G16c':
            # a sub-directory: (two dots +) one file, the rest of its first block empty, a ghost at the start of the next block / cluster
            sub = [f('A.TXT', [], 0)] + [dict(t='raw', hex='00' * 32) for _ in range(13)] + [f('GHOST.TXT', [6], 1)]
            chain = [8, 9] if v['bpc'] == 1 else [8]
            v['root'] = [d('SUB', chain, sub), f('B.TXT', [], 0)]
            v['window'] = sorted(set(v['window'] + [6] + chain))
            dirname = 'SUB'
        else:
            v['root'] = [f('A.TXT', [2], 1)] + ghosts
            v['window'] = sorted(set(v['window'] + [2, 3]))
            dirname = None
        ops = prologue() + ([O('open_dir', d='d0', name='SUB', as_='d1')] if dirname else [])
        dd = 'd1' if dirname else 'd0'
        ops += [O('iterate', d=dd), O('find', d=dd, name='GHOST.TXT'), O('find', d=dd, name='A.TXT'), O('open_file', d=dd, name='GHOST.TXT', mode='ReadOnly', as_='f0'),
                O('delete', d=dd, name='GHOST.TXT'), O('open_dir', d=dd, name='GHOST.TXT', as_='dx'), O('iterate_lfn', d=dd)]
        ops += ([O('close_dir', d='d1')] if dirname else []) + [O('close_dir', d='d0'), O('close_volume', v='v0')]
        add('S24-' + gname, (dict(vols=[v]), upc, bounds), ops, upc, chk='listing')

    # S25: large aligned rewrites of whole clusters while the block cache holds a block from the middle / the end of the run
    # (read or partly written just before), then a small write into that very block; two files interleaved
    for gname in ['G16c', 'G32c'] + (['G16d'] if big == 'full' else []):
        img = image_of(gname, tree='T0', nfree=6)
        upc = img[1]
        upb = len(img[2])
        bpc = upc // upb
        ops = prologue() + [O('open_file', d='d0', name='RUN.BIN', mode='Create', as_='f0'), O('write', f='f0', n=2 * upc),
                            O('open_file', d='d0', name='OTHER.BIN', mode='Create', as_='f1'), O('write', f='f1', n=upc)]
        for blk in sorted({bpc - 1, 5 % bpc, 4 % bpc, 1}):
            ops += [O('seek_start', f='f0', u=blk * upb + 1), O('read', f='f0', n=1),            # the cache holds block blk of cluster 0
                    O('seek_start', f='f0', u=0), O('write', f='f0', n=upc),                      # the whole cluster rewritten, aligned
                    O('seek_start', f='f0', u=blk * upb + 2), O('write', f='f0', n=1),            # a few bytes of that block
                    O('seek_start', f='f0', u=0), O('read', f='f0', n=upc),
                    O('seek_start', f='f0', u=upc + blk * upb), O('write', f='f0', n=1),          # partly written: cached, in cluster 1
                    O('seek_start', f='f0', u=upb), O('write', f='f0', n=2 * upc - upb),          # a run across the cluster boundary
                    O('seek_start', f='f0', u=upc + blk * upb + 1), O('write', f='f0', n=2),
                    O('seek_start', f='f1', u=blk * upb), O('read', f='f1', n=1),                 # the other file's block cached
                    O('seek_start', f='f0', u=0), O('write', f='f0', n=2 * upc),
                    O('seek_start', f='f1', u=blk * upb + 1), O('write', f='f1', n=1),
                    O('seek_start', f='f0', u=0), O('read', f='f0', n=2 * upc), O('seek_start', f='f1', u=0), O('read', f='f1', n=upc)]
        # a few bytes in the middle of a block, then a whole block elsewhere in a cluster that is already located, then flush:
        # what was flushed has to be on the medium whatever is written afterwards
        ops += [O('seek_start', f='f0', u=upc + upb + 1), O('write', f='f0', n=1), O('seek_start', f='f0', u=0), O('write', f='f0', n=upb), O('flush', f='f0'),
                O('seek_start', f='f1', u=2), O('write', f='f1', n=1), O('seek_start', f='f0', u=upb), O('write', f='f0', n=2 * upb), O('flush', f='f1'),
                O('write', f='f1', n=upc), O('flush', f='f0'), O('mkdir', d='d0', name='AFTER')]
        ops += [O('close_file', f='f0'), O('close_file', f='f1')] + epilogue()
        add('S25-' + gname, img, ops, upc)

    # S26: a clock that stands still (no real-time clock: every timestamp is the same): a file truncated and rewritten to the
    # very same length at the very same time, an existing file whose times equal the clock's, rewritten in place
    for gname in ['G16a', 'G32a']:
        img = image_of(gname, tree='T0', nfree=6)
        upc = img[1]
        low = [c for c in range(2, 12) if c != (2 if img[0]['vols'][0]['fat32'] else None)]
        img[0]['vols'][0]['root'] = [f('OLD.BIN', [low[0], low[1]], upc + 2, ct=100, mt=100), f('OLD2.BIN', [low[2]], 2, ct=100, mt=100)]
        img[0]['vols'][0]['window'] = sorted(set(img[0]['vols'][0]['window'] + low[:3]))
        ops = prologue() + [O('open_file', d='d0', name='SAME.BIN', mode='Create', as_='f0'), O('write', f='f0', n=upc + 1), O('close_file', f='f0'),
                            O('open_file', d='d0', name='SAME.BIN', mode='Truncate', as_='f1'), O('write', f='f1', n=upc + 1), O('close_file', f='f1'),
                            O('open_file', d='d0', name='SAME.BIN', mode='CreateOrTruncate', as_='f2'), O('write', f='f2', n=upc + 1), O('flush', f='f2'), O('close_file', f='f2'),
                            O('open_file', d='d0', name='OLD.BIN', mode='Truncate', as_='f3'), O('write', f='f3', n=upc + 2), O('close_file', f='f3'),
                            O('open_file', d='d0', name='OLD2.BIN', mode='Append', as_='f4'), O('seek_start', f='f4', u=0), O('write', f='f4', n=2), O('close_file', f='f4'),
                            O('open_file', d='d0', name='OLD2.BIN', mode='Truncate', as_='f5'), O('close_file', f='f5'),
                            O('open_file', d='d0', name='OLD2.BIN', mode='Append', as_='f6'), O('write', f='f6', n=2), O('flush', f='f6'), O('write', f='f6', n=1), O('close_file', f='f6'),
                            O('mkdir', d='d0', name='D'), O('delete', d='d0', name='SAME.BIN'),
                            O('open_file', d='d0', name='SAME.BIN', mode='Create', as_='f7'), O('write', f='f7', n=upc + 1), O('close_file', f='f7')] + epilogue()
        add('S26-' + gname, img, ops, upc, clock='stalled')
        # ... and on a clock that runs backwards (set back between the calls): every time stamp is earlier than the one before
        add('S26b-' + gname, img, [dict(o) for o in ops], upc, clock='backwards')

    # S27: the largest FAT16 volume: an existing directory and an existing file whose chains run THROUGH the clusters
    # 0xFFF0 / 0xFFF1 (ordinary cluster numbers there, although they look like the reserved range of smaller volumes)
    v, upc, bounds = geom('G16e', tree='T0', nfree=4)
    spc = 16 * v['bpc']
    # (the directory's first cluster has a free slot - a deleted entry - and its last names lie in the second cluster)
    v['root'] = [d('DIRX', [10, 65520], [deleted('GONE.TXT', chain=[], units=0)] + [f('F%02d.TXT' % i) for i in range(spc)]), f('LOG.TXT', [11, 65521, 12], 2 * upc + 1)]
    v['window'] = sorted(set(v['window'] + [10, 11, 12, 65520, 65521]))
    last = 'F%02d.TXT' % (spc - 1)
    ops = prologue() + [O('open_file', d='d0', name='LOG.TXT', mode='ReadOnly', as_='f1'), O('read', f='f1', n=3 * upc), O('close_file', f='f1'),
                        O('open_file', d='d0', name='LOG.TXT', mode='Append', as_='f2'), O('write', f='f2', n=upc), O('seek_start', f='f2', u=upc + 1), O('write', f='f2', n=2),
                        O('close_file', f='f2'),
                        O('open_dir', d='d0', name='DIRX', as_='d1'), O('iterate', d='d1'), O('find', d='d1', name=last),
                        O('open_file', d='d1', name=last, mode='Create', as_='f0'), O('close_file', f='f0'),
                        O('open_file', d='d1', name='F%02d.TXT' % (spc - 2), mode='Create', as_='f0b'), O('mkdir', d='d1', name=last),
                        O('open_file', d='d1', name='NEW.TXT', mode='Create', as_='f3'), O('write', f='f3', n=1), O('close_file', f='f3'), O('iterate', d='d1'),
                        O('delete', d='d1', name=last), O('delete', d='d0', name='LOG.TXT'), O('close_dir', d='d1')] + epilogue()
    add('S27-G16e', (dict(vols=[v]), upc, bounds), ops, upc)

    # S28: a short file that owns a long chain (pre-allocated by another system, or left by an interrupted truncation), a file
    # whose first cluster is the last cluster of the volume: truncated, refilled, deleted - the space comes back
    for gname in ['G16a', 'G32a', 'G16c']:
        v, upc, bounds = geom(gname, tree='T0', nfree=7)
        fr = sorted(c for c in v['window'] if c >= v['clusters'] + 2 - 7)
        v['root'] = [f('PREALLOC.DAT', fr[0:3], 1), f('LAST.DAT', [fr[6]], min(2, upc))]
        ops = prologue() + [O('open_file', d='d0', name='PREALLOC.DAT', mode='Truncate', as_='f0'), O('close_file', f='f0'),
                            O('open_file', d='d0', name='FILL.BIN', mode='Create', as_='f1'), O('write', f='f1', n=5 * upc), O('write', f='f1', n=1), O('close_file', f='f1'),
                            O('open_file', d='d0', name='LAST.DAT', mode='Truncate', as_='f2'), O('write', f='f2', n=1), O('close_file', f='f2'),
                            O('open_file', d='d0', name='LAST.DAT', mode='CreateOrTruncate', as_='f3'), O('close_file', f='f3'),
                            O('delete', d='d0', name='LAST.DAT'), O('delete', d='d0', name='FILL.BIN'), O('delete', d='d0', name='PREALLOC.DAT'),
                            O('open_file', d='d0', name='ALL.BIN', mode='Create', as_='f4'), O('write', f='f4', n=7 * upc), O('write', f='f4', n=1), O('close_file', f='f4')] + epilogue()
        if v['fat32']:
            # the reserved top four bits of FAT32 entries are somebody else's: set in the chains that get released here
            v['hi'] = {str(c): (1 + c % 15) for c in fr}
        # whole blocks of zero bytes written over live data (and read back after the cache has moved on)
        upb = len(bounds)
        zops = [O('open_file', d='d0', name='Z.BIN', mode='Create', as_='fz'), O('write', f='fz', n=upc), O('seek_start', f='fz', u=0), O('write', f='fz', n=upb, zero=True),
                O('iterate', d='d0'), O('seek_start', f='fz', u=0), O('read', f='fz', n=upc), O('seek_start', f='fz', u=0), O('write', f='fz', n=upc, zero=True), O('close_file', f='fz'),
                O('open_file', d='d0', name='Z.BIN', mode='ReadOnly', as_='fz2'), O('read', f='fz2', n=upc), O('close_file', f='fz2'), O('delete', d='d0', name='Z.BIN')]
        ops = ops[:2] + zops + ops[2:]
        add('S28-' + gname, (dict(vols=[v]), upc, bounds), ops, upc)

    # S29: "." opened on a root while the open-directory table and the open-volume table are not aligned
    img = image_multi()
    ops = [O('open_volume', idx=0, as_='v0'), O('open_volume', idx=1, as_='v1'), O('open_root', v='v1', as_='b'), O('open_root', v='v0', as_='a'),
           O('open_dir', d='a', name='.', as_='ad'), O('open_file', d='ad', name='DOT.TXT', mode='Create', as_='f0'), O('write', f='f0', n=2), O('close_file', f='f0'),
           O('iterate', d='a'), O('iterate', d='b'), O('close_dir', d='a'), O('close_volume', v='v0'), O('close_dir', d='b'), O('close_volume', v='v1'),
           O('open_dir', d='ad', name='.', as_='ad2'), O('iterate', d='ad2'), O('close_dir', d='ad2'), O('close_dir', d='ad'), O('close_volume', v='v0'), O('close_volume', v='v1'), O('remount')]
    add('S29-multi', img, ops, img[1], lim=(4, 4, 4) if False else (8, 8, 4), log=True)

    # S30: a new directory on clusters of several blocks filled entry by entry (each block boundary inside the cluster is crossed),
    # a crash mount after every single device write
    for gname in ['G16c', 'G32f']:
        img = image_of(gname, tree='T0', nfree=4)
        ops = prologue() + [O('mkdir', d='d0', name='FILLD'), O('open_dir', d='d0', name='FILLD', as_='d1')]
        for i in range(19):
            ops += [O('open_file', d='d1', name='E%02d.TXT' % i, mode='Create', as_='f0'), O('close_file', f='f0')]
        ops += [O('iterate', d='d1'), O('close_dir', d='d1')] + epilogue()
        add('S30-' + gname, img, ops, img[1], crashall=True)

    # S31: a file that carries the volume label's name, behind the label (results only: the pair is not a well-formed directory for
    # every reader): lookups by that name meet the label first, and nothing happens to either of them
    for gname in ['G16a', 'G32a']:
        v, upc, bounds = geom(gname, tree='T0', nfree=3)
        v['root'] = [label('DATA'), f('DATA', [9], 1), f('OTHER.TXT', [10], 1)]
        v['window'] = sorted(set(v['window'] + [9, 10]))
        ops = prologue() + [O('find', d='d0', name='DATA'), O('open_file', d='d0', name='DATA', mode='ReadOnly', as_='f0'), O('open_file', d='d0', name='DATA', mode='Truncate', as_='f1'),
                            O('delete', d='d0', name='DATA'), O('iterate', d='d0'), O('open_file', d='d0', name='F.BIN', mode='Create', as_='f2'), O('write', f='f2', n=upc + 1), O('close_file', f='f2'),
                            O('delete', d='d0', name='DATA'), O('open_file', d='d0', name='F.BIN', mode='ReadOnly', as_='f3'), O('read', f='f3', n=upc + 1), O('close_file', f='f3'),
                            O('iterate', d='d0'), O('label', v='v0')] + epilogue()
        add('S31-' + gname, (dict(vols=[v]), upc, bounds), ops, upc, chk='listing')

    # S32: the application edits the medium itself through `VolumeManager::device` (the name bytes of a closed file's entry, in the
    # block the library has just read) between two listings: listings, lookups and opens afterwards answer for the medium as it is now
    for gname in ['G16a', 'G32a', 'G16c']:
        img = image_of(gname, tree='T2', nfree=4)
        upc = img[1]
        ops = prologue() + [O('iterate', d='d0'), O('ext_rename', d='d0', name='A.TXT', to='RENAMED.TXT'), O('iterate', d='d0'),
                            O('find', d='d0', name='RENAMED.TXT'), O('find', d='d0', name='A.TXT'),
                            O('open_file', d='d0', name='RENAMED.TXT', mode='ReadOnly', as_='f0'), O('read', f='f0', n=upc), O('close_file', f='f0'),
                            O('open_dir', d='d0', name='SUB', as_='d1'), O('find', d='d1', name='F11.Z'), O('ext_rename', d='d1', name='F11.Z', to='G11.Z'),
                            O('find', d='d1', name='G11.Z'), O('find', d='d1', name='F11.Z'), O('iterate', d='d1'),
                            O('ext_rename', d='d1', name='G11.Z', to='H11.Z'), O('open_file', d='d1', name='H11.Z', mode='Append', as_='f1'),
                            O('write', f='f1', n=1), O('close_file', f='f1'), O('iterate', d='d1'), O('close_dir', d='d1')] + epilogue()
        add('S32-' + gname, img, ops, upc)

    # S33: the entry in the last slot of a directory block deleted while the directory goes on in the next block (nothing created
    # there afterwards): sub-directories (slot 15 is the 14th file) and a FAT16 root, then a fresh mount
    for gname in ['G16a', 'G32a', 'G16c', 'G16g']:
        img = image_of(gname, tree='T0', nfree=4)
        nroot = len([x for x in img[0]['vols'][0]['root']])
        ops = prologue() + [O('mkdir', d='d0', name='EDGE'), O('open_dir', d='d0', name='EDGE', as_='d1')]
        for i in range(19):
            ops += [O('open_file', d='d1', name='E%02d.TXT' % i, mode='Create', as_='f0'), O('close_file', f='f0')]
        ops += [O('open_file', d='d1', name='E15.TXT', mode='Append', as_='f1'), O('delete', d='d1', name='E13.TXT'), O('iterate', d='d1'), O('find', d='d1', name='E14.TXT'),
                O('write', f='f1', n=1), O('close_file', f='f1'), O('delete', d='d1', name='E14.TXT'), O('delete', d='d1', name='E12.TXT'), O('iterate', d='d1'),
                O('lookup_all', d='d1'), O('close_dir', d='d1')]
        if not img[0]['vols'][0]['fat32'] and img[0]['vols'][0]['root_entries'] >= 32:
            # the same in the root directory: fill it up to slot 17, delete what sits in slot 15
            k = 0
            while nroot + 1 + k < 18:
                ops += [O('open_file', d='d0', name='R%02d.TXT' % k, mode='Create', as_='f0'), O('close_file', f='f0')]
                k += 1
            ops += [O('iterate', d='d0')] + [O('delete', d='d0', name='R%02d.TXT' % j) for j in range(max(0, k - 4), k - 1)] + [O('iterate', d='d0'), O('lookup_all', d='d0')]
        add('S33-' + gname, img, ops + epilogue(), img[1])

    # S34: a FAT32 volume whose root directory does not start at cluster 2 while an ordinary directory does: `..` of that
    # directory's children leads to it (not to the root), `..` of the directory itself to the root
    for gname in ['G32b', 'G32a']:
        v, upc, bounds = geom(gname, tree='T0', nfree=3)
        v['root_cluster'] = 5
        v['root'] = [d('TWO', [2], [f('IN2.TXT', [4], 1), d('KID', [3], [f('K.BIN', [6], 1)])]), f('TOP.TXT', [7], 1)]
        v['window'] = sorted(set(v['window'] + [2, 3, 4, 5, 6, 7]))
        ops = prologue() + [O('open_dir', d='d0', name='TWO', as_='d1'), O('open_dir', d='d1', name='KID', as_='d2'), O('open_dir', d='d2', name='..', as_='d3'),
                            O('iterate', d='d3'), O('find', d='d3', name='KID'), O('find', d='d3', name='TOP.TXT'), O('lookup_all', d='d3'),
                            O('open_file', d='d3', name='IN2.TXT', mode='ReadOnly', as_='f0'), O('read', f='f0', n=1), O('close_file', f='f0'),
                            O('open_dir', d='d3', name='..', as_='d4'), O('iterate', d='d4'), O('find', d='d4', name='TOP.TXT'),
                            O('change_dir', d='d2', name='..'), O('iterate', d='d2'), O('open_file', d='d2', name='NEW.TXT', mode='Create', as_='f1'), O('write', f='f1', n=1),
                            O('close_file', f='f1'), O('iterate', d='d1'), O('mkdir', d='d2', name='MK'), O('open_dir', d='d2', name='MK', as_='d5'), O('open_dir', d='d5', name='..', as_='d6'),
                            O('iterate', d='d6'), O('close_dir', d='d6'), O('close_dir', d='d5'), O('close_dir', d='d4'), O('close_dir', d='d3'), O('close_dir', d='d2'), O('close_dir', d='d1')] + epilogue()
        add('S34-' + gname, (dict(vols=[v]), upc, bounds), ops, upc, lim=(8, 8, 4))

    # S35: files whose chains live in the FIRST FAT block (low clusters, as on any freshly formatted medium) made durable, then
    # volume-level work only: closing the volume (information sector, whatever else a close writes), opening it again, a mkdir
    for gname in ['G32r', 'G32s', 'G32a', 'G16a']:
        img = image_of(gname, tree='T1', nfree=5)
        upc = img[1]
        ops = prologue() + [O('open_dir', d='d0', name='TEST', as_='d1'), O('open_file', d='d1', name='TEST.DAT', mode='Append', as_='f0'), O('write', f='f0', n=1), O('close_file', f='f0'),
                            O('open_file', d='d0', name='README.TXT', mode='Append', as_='f1'), O('write', f='f1', n=1), O('flush', f='f1'), O('close_file', f='f1'),
                            O('close_dir', d='d1'), O('close_dir', d='d0'), O('close_volume', v='v0'),
                            O('open_volume', idx=None, as_='v1'), O('open_root', v='v1', as_='d2'), O('mkdir', d='d2', name='LATER'), O('iterate', d='d2'),
                            O('close_dir', d='d2'), O('close_volume', v='v1'), O('remount')]
        add('S35-' + gname, img, ops, upc)

    # S7: several volumes at once
    img = image_multi()
    upc = img[1]
    ops = [O('open_volume', idx=0, as_='v0'), O('open_volume', idx=1, as_='v1'), O('open_volume', idx=2, as_='v2'), O('open_volume', idx=3, as_='v3'),
           O('open_root', v='v0', as_='a'), O('open_root', v='v1', as_='b'), O('open_root', v='v2', as_='c'),
           O('open_file', d='a', name='X.BIN', mode='Create', as_='fa'), O('open_file', d='b', name='X.BIN', mode='Create', as_='fb'),
           O('open_file', d='c', name='X.BIN', mode='Create', as_='fc'),
           O('write', f='fa', n=upc + 1), O('write', f='fb', n=2 * upc), O('write', f='fc', n=3), O('write', f='fa', n=1), O('write', f='fb', n=1),
           O('seek_start', f='fa', u=0), O('read', f='fa', n=upc + 2), O('seek_start', f='fb', u=1), O('read', f='fb', n=2 * upc),
           O('close_volume', v='v1'), O('close_file', f='fb'), O('close_file', f='fa'), O('mkdir', d='b', name='ONB'), O('mkdir', d='c', name='ONC'),
           O('close_file', f='fc'), O('close_dir', d='a'), O('close_dir', d='b'), O('close_dir', d='c'),
           O('close_volume', v='v1'), O('close_volume', v='v0'), O('close_volume', v='v2'), O('remount')]
    add('S7-multi', img, ops, upc, lim=(8, 8, 4))

    # S8: FAT32 information sector variants (C16)
    for tag, info in [('correct', dict(info_next='first')), ('unknown', dict(info_free='unknown')),
                      ('stale0', dict(info_free=0, info_next=3)), ('stalebig', dict(info_free=1000000, info_next=65000)),
                      ('hintpast', dict(info_next=70000)), ('hintlast', dict(info_next=65526)),
                      # the free clusters lie BELOW the stored hint (the search must wrap), with every kind of stored count
                      ('stale0-mid', dict(info_free=0, info_next=65000)), ('correct-mid', dict(info_next=65000)), ('unknown-mid', dict(info_free='unknown', info_next=65526)),
                      ('stale1-mid', dict(info_free=1, info_next=60000)),
                      # count and hint known / unknown independently; the reserved hint values 0 and 1
                      ('count-nohint', dict(info_free='correct')), ('stalecount-nohint', dict(info_free=3)), ('nocount-hint', dict(info_free='unknown', info_next='first')),
                      ('count-hint0', dict(info_free='correct', info_next=0)), ('count-hint1', dict(info_free='correct', info_next=1))]:
        img = image_of('G32a', tree='T1', nfree=6, info=info, window_mid=tag.endswith('-mid'))
        upc = img[1]
        ops = prologue() + [O('open_file', d='d0', name='I.BIN', mode='Create', as_='f0'), O('write', f='f0', n=3 * upc), O('flush', f='f0'),
                            O('close_file', f='f0'), O('open_file', d='d0', name='I.BIN', mode='Truncate', as_='f0'), O('write', f='f0', n=1),
                            O('close_file', f='f0'), O('mkdir', d='d0', name='IDIR'), O('delete', d='d0', name='I.BIN'),
                            O('open_file', d='d0', name='J.BIN', mode='Create', as_='f1'), O('write', f='f1', n=2 * upc), O('close_file', f='f1')] + epilogue()
        add('S8-' + tag, img, ops, upc)
    img = image_of('G32c', tree='T1', nfree=5, bounds=BOUNDS[1], info=dict(info_free=2, info_next=2, hi={'69998': 5, '69999': 10, '70000': 15, '3': 7}))
    upc = img[1]
    ops = prologue() + [O('open_file', d='d0', name='H.BIN', mode='Create', as_='f0'), O('write', f='f0', n=2 * upc + 1), O('close_file', f='f0'),
                        O('open_file', d='d0', name='H.BIN', mode='Truncate', as_='f0'), O('close_file', f='f0'), O('delete', d='d0', name='H.BIN')] + epilogue()
    add('S8-G32c-hi', img, ops, upc)
    return H

# ------------------------------------------------------------------------------------------------
# seeded random histories

GOOD_NAMES = ['F00.Z', 'F10.Z', 'F11.Z', 'A.TXT', 'B.DAT', 'C', 'LONGNAME.EXT', 'README.TXT', 'EMPTY.DAT', 'TEST', 'NEW.BIN', 'Z9_-~!#.$%&', 'x.y', 'TEST.DAT',
              'SUB', 'DEEP', 'RO.TXT', 'ZC.DAT', 'X.BIN', 'LONGFI~1.TXT', 'D1', 'D2']
BAD_NAMES = ['BAD*NAME', 'WAYTOOLONGNAME', 'A.LONGEXT', 'a b', '']
MODES = ['ReadOnly', 'Append', 'Truncate', 'Create', 'CreateOrTruncate', 'CreateOrAppend']

def random_history(rng, hid, length=60):
    gname = rng.choice(['G16a', 'G16a', 'G16b', 'G16c', 'G32a', 'G32a', 'G32b', 'G32c', 'G16d', 'G32d'])
    bounds = rng.choice(BOUNDS)
    if gname in ('G16d', 'G32d'):
        bounds = [0]
        length = min(length, 30)
    if gname in ('G16c', 'G32c'):
        bounds = rng.choice([[0], [0, 256]])
    tree = rng.choice(['T0', 'T1', 'T1', 'T2'])
    nfree = rng.choice([2, 3, 4, 6, 8])
    info = None
    if gname.startswith('G32'):
        info = rng.choice([None, None, dict(info_free='unknown'), dict(info_free='unknown', info_next='first'),
                           dict(info_next=rng.choice([3, 65526, 70001, 1])), dict(info_free=rng.choice([0, 1, 2]), info_next=rng.choice([65000, 65526, 200]))])
    image, upc, bounds = image_of(gname, tree=tree, nfree=nfree, window_mid=rng.random() < 0.25, bounds=bounds, info=info)
    lim = rng.choice(LIMITS)
    while lim[2] < 1:
        lim = rng.choice(LIMITS)
    D, F, V = lim
    ops = []
    nv = [0]
    vols, dirs_, files, closed = [], [], [], {'v': [], 'd': [], 'f': []}
    known_dirs = ['SUB', 'TEST', 'DEEP', 'D1', 'D2']

    def fresh(p):
        nv[0] += 1
        return '%s%d' % (p, nv[0])

    ops += [O('open_volume', idx=image['vols'][0]['slot'], as_='v0'), O('open_root', v='v0', as_='d0')]
    vols.append('v0')
    dirs_.append('d0')
    sizes = [0, 1, 1, 2, 3, upc - 1, upc, upc + 1, 2 * upc, 2 * upc + 1]
    for _ in range(length):
        r = rng.random()
        api = rng.choice(['raw', 'raw', 'raw', 'raii', 'eio'])
        if r < 0.16 and dirs_:
            v_ = fresh('f')
            ops.append(O('open_file', d=rng.choice(dirs_), name=rng.choice(GOOD_NAMES if rng.random() < 0.95 else BAD_NAMES), mode=rng.choice(MODES), as_=v_, api=rng.choice(['raw', 'raii'])))
            files.append(v_)
        elif r < 0.36 and files:
            ops.append(O('write', f=rng.choice(files), n=rng.choice(sizes), api=api))
        elif r < 0.48 and files:
            ops.append(O('read', f=rng.choice(files), n=rng.choice(sizes + [4 * upc]), api=api))
        elif r < 0.60 and files:
            k = rng.choice(['seek_start', 'seek_end', 'seek_cur'])
            u = rng.choice([0, 0, 1, 2, upc - 1, upc, upc + 1, 2 * upc, 3 * upc + 2])
            if k == 'seek_cur':
                u = rng.choice([u, -u, -1])
            ops.append(O(k, f=rng.choice(files), u=u, api=rng.choice(['raw', 'eio'])))
        elif r < 0.65 and files:
            ops.append(O('flush', f=rng.choice(files), api=api))
        elif r < 0.73 and files:
            f_ = rng.choice(files)
            files.remove(f_)
            closed['f'].append(f_)
            ops.append(O('close_file', f=f_, api=rng.choice(['raw', 'raw', 'raii', 'drop'])))
        elif r < 0.77 and dirs_:
            ops.append(O('delete', d=rng.choice(dirs_), name=rng.choice(GOOD_NAMES), api=rng.choice(['raw', 'raii'])))
        elif r < 0.81 and dirs_:
            ops.append(O('mkdir', d=rng.choice(dirs_), name=rng.choice(known_dirs + ['A.TXT']), api=rng.choice(['raw', 'raii'])))
        elif r < 0.86 and dirs_:
            v_ = fresh('d')
            ops.append(O('open_dir', d=rng.choice(dirs_), name=rng.choice(known_dirs + ['.', '..', 'A.TXT', 'NOPE']), as_=v_, api=rng.choice(['raw', 'raii'])))
            dirs_.append(v_)
        elif r < 0.89 and len(dirs_) > 1:
            d_ = rng.choice(dirs_[1:])
            dirs_.remove(d_)
            closed['d'].append(d_)
            ops.append(O('close_dir', d=d_, api=rng.choice(['raw', 'raii', 'drop'])))
        elif r < 0.93 and dirs_:
            d_ = rng.choice(dirs_)
            ops.append(O(rng.choice(['iterate', 'iterate_lfn']), d=d_, reent=rng.random() < 0.2))
            if rng.random() < 0.4:
                ops.append(O('lookup_all', d=d_))
        elif r < 0.95 and dirs_:
            ops.append(O('find', d=rng.choice(dirs_), name=rng.choice(GOOD_NAMES + ['..', '.'])))
        elif r < 0.97:
            pool = closed['f'] and [O(rng.choice(['read', 'write']), f=rng.choice(closed['f']), n=1), O('close_file', f=rng.choice(closed['f'])), O('flush', f=rng.choice(closed['f']))] or []
            pool += closed['d'] and [O('iterate', d=rng.choice(closed['d'])), O('close_dir', d=rng.choice(closed['d']))] or []
            if pool:
                ops.append(rng.choice(pool))
        elif r < 0.985:
            ops.append(O(rng.choice(['has_open', 'length', 'offset', 'eof']), **({'f': rng.choice(files)} if files else {})))
            if ops[-1]['op'] != 'has_open' and not files:
                ops.pop()
        else:
            for k in ('length', 'offset', 'eof'):
                if files:
                    ops.append(O(k, f=rng.choice(files)))
    for f_ in files:
        ops.append(O('close_file', f=f_))
    for d_ in reversed(dirs_):
        ops.append(O('close_dir', d=d_))
    ops += [O('close_volume', v='v0'), O('remount')]
    return dict(id=hid, src='random', image=image, bounds=bounds, limits=list(lim), ops=ops,
                id_offset=rng.choice([5000, 0, 4294967290]))

def random_histories(seed, count, length=60):
    rng = random.Random(seed)
    return [random_history(rng, 'R%d-%d' % (seed, i), length) for i in range(count)]

# ------------------------------------------------------------------------------------------------
# C17: directories packed with long-name fragment runs (complete, broken, reordered, stale), and garbage

def _csum(name11):
    s = 0
    for ch in name11:
        s = (((s & 1) << 7) + (s >> 1) + ord(ch)) & 0xFF
    return s

def _names_by_csum(n_each=40):
    by = {}
    k = 0
    while min((len(v) for v in by.values()), default=0) < n_each or len(by) < 256:
        nm = 'N%07dTXT' % k
        by.setdefault(_csum(nm), []).append(nm)
        k += 1
        if k > 200000:
            break
    return by

LFN_SYMS = ['S', 'S=', 'D', 'V', 'Ls1', 'Ls2', 'Lc1', 'Lc2', 'Lx1', 'Lsx1', 'Ls20', 'Ls0', 'Ls3', 'Lc3', 'DL']

def lfn_directory(seqs, rng):
    """slot specs for a directory holding the given symbol sequences, each closed by a plain short entry"""
    by = _names_by_csum()
    used = {}
    slots = []
    last_cs = [None]
    fragno = [0]

    def fresh_name(cs=None):
        if cs is None:
            cs = rng.randrange(256)
        i = used.get(cs, 0)
        used[cs] = i + 1
        return by[cs][i]

    def units(final):
        fragno[0] += 1
        txt = [ord(c) for c in 'f%04d' % fragno[0]]
        style = fragno[0] % 5
        if style == 1:
            txt = [0xDE00] + txt            # starts with a low surrogate (pairs with a high one ending the next-on-disk fragment?)
        if style == 2:
            txt = txt + [0x20AC, 0xE9]
        if final:
            u = txt + [0]
        else:
            u = (txt + [0x41 + i % 26 for i in range(13)])[:13]
            if style == 3:
                u[12] = 0xD83D             # ends with a high surrogate
        return u

    for seq in seqs:
        # checksum the fragments of this sequence refer to: the next short entry of the sequence
        names = []
        for sym in seq:
            if sym in ('S', 'V'):
                names.append(fresh_name())
            elif sym == 'S=':
                names.append(fresh_name(last_cs[0] if last_cs[0] is not None else None))
            else:
                names.append(None)
            if names[-1]:
                last_cs[0] = _csum(names[-1])
        for i, sym in enumerate(seq):
            nxt = next((n for n in names[i:] if n), None)
            cs = _csum(nxt) if nxt else 0x55
            if sym in ('S', 'S='):
                slots.append(dict(t='file', name=names[i], chain=[], units=0))
            elif sym == 'V':
                slots.append(dict(t='label', name=names[i]))
            elif sym == 'D':
                slots.append(dict(t='del', name='GONE    %03d' % (len(slots) % 1000), chain=[], units=0))
            elif sym == 'DL':
                # a deleted long-name fragment (0xE5 reads as "start of a run of five" if it is taken for a live one) with the right checksum
                slots.append(dict(t='lfn', seq=0xE5, csum=cs, u=units(False)))
            else:
                start = sym.startswith('Ls')
                wrong = 'x' in sym
                no = int(sym.lstrip('Lscx'))
                slots.append(dict(t='lfn', seq=(0x40 if start else 0) | no, csum=(cs ^ 0x5A) if wrong else cs, u=units(no == 1)))
        sep = fresh_name()
        last_cs[0] = _csum(sep)
        slots.append(dict(t='file', name=sep, chain=[], units=0))
    return slots

def lfn_histories(seed, quick):
    import itertools
    rng = random.Random(seed + 17)
    seqs = [list(s) for n in (1, 2) for s in itertools.product(LFN_SYMS, repeat=n)]
    if not quick:
        seqs += [list(s) for s in itertools.product(LFN_SYMS, repeat=3)]
    for _ in range(250 if quick else 3000):
        seqs.append([rng.choice(LFN_SYMS) for _ in range(rng.choice([3, 4, 5, 6]))])
    # well-formed multi-fragment runs
    for n in (2, 3, 5, 16, 19, 20):
        seqs.append(['Ls%d' % n] + ['Lc%d' % k for k in range(n - 1, 0, -1)] + ['S'])
    # the same with the first fragment deleted (the rest still live), and with a deleted fragment in the middle
    for n in (2, 3, 5, 6):
        seqs.append(['DL'] + ['Lc%d' % k for k in range(n - 1, 0, -1)] + ['S'])
        seqs.append(['Ls%d' % n] + ['Lc%d' % k for k in range(n - 1, 1, -1)] + ['DL', 'S'])
    H = []
    cur, count = [], 0
    packs = []
    for s in seqs:
        need = len(s) + 1
        if count + need > 500:
            packs.append(cur)
            cur, count = [], 0
        cur.append(s)
        count += need
    if cur:
        packs.append(cur)
    for k, pack in enumerate(packs):
        # 'Ls19' style long runs need Lc symbols beyond the alphabet: handled by lfn_directory generically
        root = lfn_directory(pack, rng)
        v, upc, bounds = geom('G16a', tree='T0', nfree=2, bounds=[0])
        v['root_entries'] = 512
        v['root'] = root
        ops = prologue() + [O('iterate_lfn', d='d0', buf=780), O('iterate_lfn', d='d0', buf=780, prepush=True), O('iterate_lfn', d='d0', buf=rng.choice([0, 3, 5, 8, 20])), O('iterate', d='d0'),
                            O('find', d='d0', name=root[-1]['name'][:8].strip() + '.' + root[-1]['name'][8:].strip())] + epilogue()[:2]
        fix_slot(dict(vols=[v]), ops)
        H.append(dict(id='L%d' % k, src='lfn', image=dict(vols=[v]), bounds=bounds, limits=[4, 4, 1], ops=ops, chk='listing'))
        if k % (4 if quick else 1) == 0:
            # the same directory as a FAT32 root whose chain jumps about the volume: runs straddle links between clusters that
            # are not neighbours on the medium
            v2, upc2, bounds2 = geom('G32a', tree='T0', nfree=2, bounds=[0])
            need = (len(root) + 15) // 16 + 1
            rest = list(range(3, 3 + 2 * need, 2)) + list(range(4, 4 + 2 * need, 2))
            rng.shuffle(rest)
            chain = [2] + rest[:need - 1]
            v2['window'] = sorted(set(v2['window'] + chain))
            v2['root_chain'] = chain
            v2['root'] = root
            ops2 = [dict(o) for o in ops]
            fix_slot(dict(vols=[v2]), ops2)
            H.append(dict(id='LF%d' % k, src='lfn', image=dict(vols=[v2]), bounds=bounds2, limits=[4, 4, 1], ops=ops2, chk='listing'))
    # a buffer that still holds part of a name when the listing starts, and a directory that starts with a complete run
    for k, gname in enumerate(['G16a', 'G32a']):
        v, upc, bounds = geom(gname, tree='T0', nfree=2, bounds=[0])
        v['root'] = [lfnfor('LONGFI~1.TXT', 'long file name.txt'), f('LONGFI~1.TXT'), f('PLAIN.TXT'), lfnfor('SECOND~1.TXT', 'second long name.txt'), f('SECOND~1.TXT')]
        ops = prologue() + [O('iterate_lfn', d='d0', buf=780, prepush=True), O('iterate_lfn', d='d0', buf=780), O('iterate_lfn', d='d0', buf=40, prepush=True),
                            O('iterate_lfn', d='d0', buf=21, prepush=True), O('iterate', d='d0')] + epilogue()[:2]
        fix_slot(dict(vols=[v]), ops)
        H.append(dict(id='LP%d' % k, src='lfn', image=dict(vols=[v]), bounds=bounds, limits=[4, 4, 1], ops=ops, chk='listing'))
    # arbitrary directory bytes never crash a listing
    for k in range(6 if quick else 60):
        raw = []
        for i in range(rng.choice([16, 40, 200])):
            b = bytes(rng.randrange(256) for _ in range(32))
            if rng.random() < 0.3:
                b = b[:11] + bytes([0x0F]) + b[12:]
            if b[0] == 0:
                b = b'\x41' + b[1:]
            raw.append(dict(t='raw', hex=b.hex()))
        v, upc, bounds = geom('G16a' if k % 2 == 0 else 'G32a', tree='T0', nfree=2, bounds=[0])
        if v['fat32']:
            need = (len(raw) + 15) // 16 + 1
            chain = [2] + list(range(3, 3 + need - 1))
            v['window'] = sorted(set(v['window'] + chain))
            v['root_chain'] = chain
        else:
            v['root_entries'] = 512
        v['root'] = raw
        ops = prologue() + [O('iterate_lfn', d='d0', buf=780), O('iterate_lfn', d='d0', buf=7), O('iterate', d='d0')] + epilogue()[:2]
        fix_slot(dict(vols=[v]), ops)
        H.append(dict(id='LG%d' % k, src='lfn-garbage', image=dict(vols=[v]), bounds=bounds, limits=[4, 4, 1], ops=ops, chk='listing'))
    return H

# ------------------------------------------------------------------------------------------------
# C15: valid layouts over the quantifier's dimensions

def mount_geometries(seed, quick):
    """volume specs covering blocks per cluster 1..128, reserved blocks, 1-2 FATs, root entry counts, 16/32-bit
    totals, partition slots and offsets, and the FAT16/FAT32 cluster-count boundaries"""
    rng = random.Random(seed + 15)
    out = []
    combos = []
    for fat32 in (False, True):
        for bpc in (1, 2, 4, 8, 16, 32, 64, 128):
            for clusters in ((4085, 4086, 20000, 65524) if not fat32 else (65525, 65526, 70000)):
                combos.append((fat32, bpc, clusters))
        # cluster counts that fill the last FAT block exactly (count + 2 is a multiple of the entries per block)
        for clusters in ((4350, 8190, 65278) if not fat32 else (65662, 66046)):
            combos.append((fat32, 1 if clusters % 3 else 4, clusters))
    for k, (fat32, bpc, clusters) in enumerate(combos):
        exact = (clusters + 2) % (128 if fat32 else 256) == 0
        if quick and k % 3 != seed % 3 and clusters not in (4085, 65524, 65525) and not exact:
            continue
        reserved = rng.choice([1, 2, 8, 63]) if not fat32 else rng.choice([7, 32, 100])
        v = dict(fat32=fat32, clusters=clusters, bpc=bpc, nfats=rng.choice([1, 2]), lba=rng.choice([1, 63, 2048, 100000]), slot=k % 4,
                 ptype=rng.choice([4, 6, 0x0E]) if not fat32 else rng.choice([0x0B, 0x0C]), reserved=reserved)
        if fat32:
            v['root_cluster'] = rng.choice([2, 2, 3, 9])
            v['fsinfo'] = rng.choice([1, 2, reserved - 1])
        else:
            v['root_entries'] = [16, 32, 112, 512, 17, 500, 225, 33][k % 8] if k % 2 else rng.choice([16, 32, 112, 512, 17, 500, 225, 33])
            v['total16'] = rng.random() < 0.5
        # blocks behind the last whole cluster, FAT sectors beyond the needed ones, a partition longer than the volume
        v['extra_tail'] = rng.choice([0, bpc - 1, bpc // 2]) if bpc > 1 else 0
        v['fat_extra'] = 0 if exact else rng.choice([0, 0, 1, 5])
        v['part_extra'] = rng.choice([0, 0, 100])
        low = [c for c in range(2, 30) if c != v.get('root_cluster')][:6]
        root, used = tree_T1(low, bpc)
        v['window'] = sorted(set(low[:used] + [clusters + 1] + ([v['root_cluster']] if fat32 else [])))
        v['root'] = root
        if fat32:
            v['info_next'] = 'first'
        out.append(v)
    return out

def mount_histories(seed, quick):
    H = []
    for k, v in enumerate(mount_geometries(seed, quick)):
        upc = v['bpc']
        ops = [O('open_volume', idx=v['slot'], as_='v0'), O('open_root', v='v0', as_='d0'), O('iterate', d='d0'), O('label', v='v0'),
               O('open_file', d='d0', name='README.TXT', mode='ReadOnly', as_='f0'), O('read', f='f0', n=upc + 2), O('close_file', f='f0'),
               O('open_dir', d='d0', name='TEST', as_='d1'), O('iterate', d='d1'),
               O('open_file', d='d1', name='TEST.DAT', mode='ReadOnly', as_='f1'), O('read', f='f1', n=1), O('seek_start', f='f1', u=upc - 1),
               O('read', f='f1', n=3), O('close_file', f='f1'),
               O('open_file', d='d1', name='NEW.BIN', mode='Create', as_='f2'), O('write', f='f2', n=upc + 1), O('close_file', f='f2'),
               O('close_dir', d='d1'), O('close_dir', d='d0'), O('close_volume', v='v0'), O('remount')]
        H.append(dict(id='MT%d-%s-bpc%d-c%d' % (k, 'f32' if v['fat32'] else 'f16', v['bpc'], v['clusters']), src='mount', image=dict(vols=[v]), bounds=[0], limits=[4, 4, 1], ops=ops))
    return H

# ------------------------------------------------------------------------------------------------
# C11: short histories whose every device call is failed in turn

def fault_histories(seed, quick):
    H = []
    cap = 100 if quick else 100000

    def add(hid, img, ops, lim=(4, 4, 1)):
        image, upc, bounds = img
        fix_slot(image, ops)
        # epilogue: every handle is used and closed, then the medium is mounted afresh
        vars_f = sorted({o['as'] for o in ops if o['op'] == 'open_file'})
        vars_d = sorted({o['as'] for o in ops if o['op'] in ('open_dir', 'open_root')})
        tail = []
        for f_ in vars_f:
            tail += [O('seek_start', f=f_, u=0), O('read', f=f_, n=3 * upc), O('read', f=f_, n=3 * upc), O('flush', f=f_), O('close_file', f=f_), O('close_file', f=f_)]
        for d_ in reversed(vars_d):
            tail += [O('iterate', d=d_), O('iterate', d=d_), O('close_dir', d=d_)]
        tail += [O('close_volume', v='v0'), O('close_volume', v='v0'), O('remount')]
        H.append(dict(id=hid, src='fault', image=image, bounds=bounds, limits=list(lim), ops=ops + tail, fault_enum=dict(cap=cap, multi=12 if quick else 400)))

    for gname in (['G16a', 'G32a', 'G16b', 'G16t'] if quick else ['G16a', 'G32a', 'G16c', 'G32b', 'G16b', 'G16t']):
        # (G16b, G32b: a single FAT; G16t: three of them)
        # read-only walks over a multi-cluster directory (FAT reads inside the walk), each call twice (retry)
        img = image_of(gname, tree='T2', nfree=4)
        upc = img[1]
        ops = prologue() + [O('open_dir', d='d0', name='SUB', as_='d1'), O('iterate', d='d1'), O('iterate', d='d1'),
                            O('find', d='d1', name='F11.Z'), O('find', d='d1', name='F11.Z'), O('find', d='d1', name='NOPE'), O('find', d='d1', name='NOPE'),
                            O('iterate_lfn', d='d0'), O('iterate_lfn', d='d0'), O('label', v='v0'), O('label', v='v0'),
                            O('open_file', d='d0', name='LONGFI~1.TXT', mode='ReadOnly', as_='f0'), O('read', f='f0', n=2 * upc), O('seek_start', f='f0', u=0), O('read', f='f0', n=2 * upc)]
        add('FR-' + gname, img, ops)
        # create in a multi-cluster directory, write, flush, overwrite, append, truncate, delete, mkdir
        img = image_of(gname, tree='T2', nfree=5)
        ops = prologue() + [O('open_dir', d='d0', name='SUB', as_='d1'),
                            O('open_file', d='d1', name='F11.Z', mode='CreateOrAppend', as_='f0'), O('write', f='f0', n=upc + 1), O('flush', f='f0'),
                            O('open_file', d='d1', name='NEW.BIN', mode='Create', as_='f1'), O('write', f='f1', n=2), O('seek_start', f='f0', u=1), O('write', f='f0', n=1),
                            O('close_file', f='f1'), O('open_file', d='d1', name='NEW.BIN', mode='CreateOrTruncate', as_='f2'), O('write', f='f2', n=1),
                            O('mkdir', d='d1', name='MK'), O('delete', d='d0', name='A.TXT'), O('open_file', d='d0', name='EMPTY.DAT', mode='CreateOrAppend', as_='f3'),
                            O('write', f='f3', n=1)]
        add('FW-' + gname, img, ops)
        # directory growth and a full volume
        img = image_of(gname, tree='T0', nfree=3)
        ops = prologue() + [O('mkdir', d='d0', name='D'), O('open_dir', d='d0', name='D', as_='d1')]
        ops += [x for i in range(15 if img[0]['vols'][0]['bpc'] == 1 else 3) for x in (O('open_file', d='d1', name='M%02d' % i, mode='Create', as_='g%d' % i), O('close_file', f='g%d' % i))]
        ops += [O('open_file', d='d1', name='BIG', mode='Create', as_='f0'), O('write', f='f0', n=3 * upc), O('close_file', f='f0'), O('delete', d='d1', name='BIG')]
        add('FG-' + gname, img, ops)
        # the last free cluster is taken by a write that succeeds (the search for the next free cluster wraps around and finds none)
        img = image_of(gname, tree='T0', nfree=2)
        ops = prologue() + [O('open_file', d='d0', name='A.BIN', mode='Create', as_='f0'), O('write', f='f0', n=upc), O('close_file', f='f0'),
                            O('open_file', d='d0', name='B.BIN', mode='Create', as_='f1'), O('write', f='f1', n=upc), O('write', f='f1', n=1), O('close_file', f='f1'),
                            O('delete', d='d0', name='A.BIN'), O('mkdir', d='d0', name='LASTD')]
        add('FL-' + gname, img, ops)
    # chains that cross from one FAT sector into the next (and a fragmented one that jumps back): delete and truncate read the
    # FAT again in the middle of releasing the chain
    for gname in ['G16a', 'G32a']:
        img = image_of(gname, tree='T0', nfree=6, window_mid=True)
        upc = img[1]
        ops = prologue() + [O('open_file', d='d0', name='X.BIN', mode='Create', as_='f0'), O('write', f='f0', n=4 * upc), O('close_file', f='f0'),
                            O('delete', d='d0', name='X.BIN'),
                            O('open_file', d='d0', name='Y.BIN', mode='Create', as_='f1'), O('write', f='f1', n=5 * upc), O('close_file', f='f1'),
                            O('open_file', d='d0', name='Y.BIN', mode='Truncate', as_='f2'), O('write', f='f2', n=1), O('close_file', f='f2'),
                            O('open_file', d='d0', name='Y.BIN', mode='CreateOrTruncate', as_='f3')]
        add('FT-' + gname, img, ops)
    # a volume whose close fails (the information sector cannot be written) is still open: opening it again, using it, closing it
    for gname in ['G32a']:
        img = image_of(gname, tree='T0', nfree=4)
        upc = img[1]
        ops = prologue() + [O('open_file', d='d0', name='A.BIN', mode='Create', as_='f0'), O('write', f='f0', n=upc + 1), O('close_file', f='f0'), O('close_dir', d='d0'),
                            O('close_volume', v='v0'), O('open_volume', idx=0, as_='v1'), O('open_root', v='v1', as_='d1'), O('iterate', d='d1'),
                            O('label', v='v0'), O('label', v='v1')]
        add('FV-' + gname, img, ops, lim=(2, 3, 4))
    # writes through the embedded-io traits that have to extend the chain (write, write_all semantics of the wrapper)
    for gname in ['G16a', 'G32a']:
        img = image_of(gname, tree='T0', nfree=4)
        upc = img[1]
        ops = prologue() + [O('open_file', d='d0', name='E.BIN', mode='Create', as_='f0'), O('write', f='f0', n=upc + 1, api='eio'), O('write', f='f0', n=upc, api='eio'),
                            O('flush', f='f0', api='eio'), O('write', f='f0', n=3 * upc, api='eio')]
        add('FE-' + gname, img, ops)
    # 128 blocks per cluster: faults inside the zeroing loop of a new directory cluster
    for gname in (['G16d'] if quick else ['G16d', 'G32d']):
        img = image_of(gname, tree='T0', nfree=3, bounds=[0])
        ops = prologue() + [O('mkdir', d='d0', name='BIG'), O('open_dir', d='d0', name='BIG', as_='d1'), O('open_file', d='d1', name='A.BIN', mode='Create', as_='f0'),
                            O('write', f='f0', n=3), O('close_file', f='f0')]
        add('FD-' + gname, img, ops)
    return H
