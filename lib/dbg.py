import json,glob,os,sys
ds=sorted(glob.glob('/verif/out/cache/*/result.json'),key=os.path.getmtime)
suite=sys.argv[1]; tag=sys.argv[2]; nth=int(sys.argv[3]) if len(sys.argv)>3 else 0; ctx=int(sys.argv[4]) if len(sys.argv)>4 else 40
r=[json.load(open(d)) for d in ds if json.load(open(d))['suite']==suite][-1]
vs=[v for v in r['viols'] if tag in v['tag'] or tag in v['detail']]
v=vs[nth]; print(v)
tr=os.path.join(r['dir'],'trace-%d.ndjson'%v['shard'])
lines=open(tr).read().splitlines()
i=v['line']-1
for k in range(max(0,i-ctx),min(len(lines),i+2)):
    e=json.loads(lines[k])
    if e['ev']=='W': print(k+1,'   W',e['n'],e['reg'],e['blk'],e['chg'],[(x['c'],x['v']) for x in e['fat'] if x['c'] in e['chg']], [(u['b'],u['w'],[(s['k'],s['n'][:8],s['c'],s['s']) for s in u['s']][:6],u['u']) for u in e['up']], e['info'] if e['reg']=='info' else '')
    elif e['ev']=='Call': print(k+1,'CALL',e['op'],json.dumps(e['a'])[:120],e['clk'])
    elif e['ev']=='Ret': print(k+1,'  RET',json.dumps(e['r'])[:100],json.dumps(e['obs'])[:160])
    elif e['ev']=='Reset': print(k+1,'RESET',e['hid'])
    else: print(k+1,e['ev'],json.dumps(e)[:120])
