"""Image catalogue (DESIGN.md Appendix G): JSON image specs for harness/mkfs."""

def N(s):
    """8.3 display name -> 11-char padded directory name"""
    if s in ('.', '..'):
        return s.ljust(11)
    if '.' in s:
        b, e = s.split('.', 1)
    else:
        b, e = s, ''
    return (b.upper().ljust(8) + e.upper().ljust(3))

def fat16(clusters=4090, bpc=1, nfats=2, root_entries=32, lba=8, slot=0, ptype=6, total16=False,
          window=None, root=None, reserved=1, **kw):
    v = dict(fat32=False, clusters=clusters, bpc=bpc, nfats=nfats, root_entries=root_entries, lba=lba,
             slot=slot, ptype=ptype, total16=total16, window=window or [], root=root or [], reserved=reserved)
    v.update(kw)
    return v

def fat32(clusters=65525, bpc=1, nfats=2, lba=8, slot=0, ptype=0x0C, window=None, root=None,
          reserved=32, root_cluster=2, **kw):
    v = dict(fat32=True, clusters=clusters, bpc=bpc, nfats=nfats, lba=lba, slot=slot, ptype=ptype,
             window=window or [], root=root or [], reserved=reserved, root_cluster=root_cluster)
    v.update(kw)
    return v

def last_clusters(clusters, k):
    """the last k valid clusters"""
    return list(range(clusters + 2 - k, clusters + 2))

def f(name, chain=(), units=0, attr=0x20, ct=2, mt=3, **kw):
    d = dict(t='file', name=N(name), chain=list(chain), units=units, attr=attr, ct=ct, mt=mt)
    d.update(kw)
    return d

def d(name, chain, slots=(), attr=0x10, ct=2, mt=2):
    return dict(t='dir', name=N(name), chain=list(chain), slots=list(slots), attr=attr, ct=ct, mt=mt)

def deleted(name, **kw):
    x = f(name, **kw)
    x['t'] = 'del'
    return x

def lfnfor(name, long):
    return dict(t='lfnfor', name=N(name), long=[ord(c) for c in long])

def label(name):
    return dict(t='label', name=name.ljust(11)[:11])

