import json,glob,os,sys,collections
ds=sorted(glob.glob('/verif/out/cache/*/sd-result.json'),key=os.path.getmtime)
r=json.load(open(ds[-1]))
first={}
for v in r['viols']:
    first.setdefault(v['hid'],v)
pat=sys.argv[1] if len(sys.argv)>1 else ''
c=collections.Counter()
for h,v in first.items():
    c[(v['prop'],v['tag'],v['detail'][:70], h.split('-')[1] if h[0]=='M' else 'H')]+=1
if not pat:
    for k,n in sorted(c.items(),key=str): print(n,k)
else:
    for h,v in first.items():
        if pat in h or pat in v['detail']:
            tr=os.path.join(r['dir'],'sdtrace-%d.ndjson'%v['shard'])
            lines=open(tr).read().splitlines()
            i=v['line']-1
            print(h,v)
            for k in range(max(0,i-int(sys.argv[2]) if len(sys.argv)>2 else i-12),min(len(lines),i+3)):
                print(k+1,lines[k][:230])
            break
