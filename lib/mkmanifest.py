#!/usr/bin/env python3
"""Regenerates /verif/MANIFEST.json from the table below (single source of truth for the interface)."""
import json, os
ROOT = os.path.dirname(os.path.dirname(os.path.abspath(__file__)))
props = [json.loads(l) for l in open(os.path.join(ROOT, 'properties.jsonl'))]

FS_NOTE = ('Trusted: TLC, the Rust projection of raw blocks into fields (harness/src/reader.rs, pinned to the FAT layout by the C18 vectors), '
           'the independent formatter, atomic ordered block writes. Coverage is exactly the geometries/histories driven (listed in the evidence file).')

CHECKS = {
 'C01': ('model_checking', 'FatApi byte-array model as oracle; every read/length/offset/eof of every open file after every call of every recorded history is validated by TLC (FatTrace), incl. raw, RAII and embedded-io flavours', 'TLA+ trace validation of recorded API histories against FatApi (TLC)', '7 C01'),
 'C02': ('model_checking', 'at every Return the medium, read by the TLA+ FAT reader (FatDisk.AbsTree), must equal the model tree (Refines); a fresh library mount after every flush/close/mkdir/delete must agree with it', 'TLA+ trace validation: Refines(medium, FatApi state) + library remount comparison', '7 C02'),
 'C03': ('model_checking', 'FatInv.WellFormed evaluated by TLC on the projected medium at every Return (success or error) of every history, pending chains of open files matched', 'TLA+ state invariant WellFormed on every Return state of validated traces', '7 C03'),
 'C04': ('model_checking', 'every recorded block write is a TLC step checked against WriteLegal: region, partition, and changed parts (FAT entries, slots, units, info fields) within what the call in flight may change', 'TLA+ action property WriteLegal on every device-write event (TLC)', '7 C04'),
 'C05': ('model_checking', 'SpaceExact (no orphan clusters when nothing is pending) and CapacityExact (accepted units = room in chain + free clusters) checked by TLC on histories that fill volumes to exactly full and back', 'TLA+ invariants SpaceExact/CapacityExact on validated traces', '7 C05'),
 'C06': ('model_checking', 'iteration results must equal FatDisk.Listing (live entries in slot order, stored fields), lookups must return the first live entry of that name, opened directories are followed by id', 'TLA+ trace validation: listing/lookup results vs FatDisk.Listing', '7 C06'),
 'C07': ('model_checking', 'admissible-result sets (refusals) of FatApi for the mode x state matrix; refused calls must leave the medium untouched', 'TLA+ trace validation: FatApi refusal sets', '7 C07'),
 'C08': ('model_checking', 'open tables of FatApi: handle freshness, stale handles, limits, close-volume rules, has_open_handles, LockError for every result-returning method inside both callbacks', 'TLA+ trace validation: FatApi open tables and limits', '7 C08'),
 'C09': ('model_checking', 'history variable dur (set at successful flush/close, cleared when a modifying call begins); Durable evaluated by TLC on the medium after EVERY later block write; library remount of write-log prefixes', 'TLA+ invariant Durable on every device-write state + crash remounts', '7 C09'),
 'C10': ('model_checking', 'CrashSafe evaluated by TLC on the medium after every block write of every mutating operation (poisoned free clusters), plus library mounts of write-log prefixes', 'TLA+ invariant CrashSafe on every device-write state + crash remounts', '7 C10'),
 'C11': ('fault_enumeration', 'every device-call index of every fault-suite history is failed in turn (read buffer scribbled); TLC validates each whole run: the faulted call must return an error, objects not involved must be intact on the medium (Refines restricted to them), no directory may hold a name twice; the involved object is re-read from the medium and the rest of the history (every handle used and closed, read-only calls retried, remount) is validated as usual', 'single-fault enumeration over device-call indices; outcomes decided by TLC (FatTrace.TRetFault + normal validation of the continuation)', '7 C11'),
 'C12': ('model_checking', 'the real SdCard driver runs against a simulated card that is a transcription of spec/SdCard.tla; TLC validates every bus event and every call result: reads return the card memory at the addressed blocks, writes change exactly those blocks, capacity = SdCard.CsdBlocks(register), kind identified; kinds x CRC x capacities x timings', 'TLA+ trace validation of driver/card conversations against SdCard.tla (SdTrace)', '7 C12'),
 'C13': ('fault_enumeration', 'one card misbehaviour per scenario from the C13 menu (silent, error bits, bad echo, never ready, no/err/bad token, bit flips and bursts, rejected writes, busy for ever, status errors, SPI error at byte k, card dying at byte k with 0xFF/0x00) at every stage; TLC checks each call outcome against the rules of SdTrace and the traffic budget', 'fault enumeration over the SdCard.tla misbehaviour menu, outcomes decided by TLC (SdTrace)', '7 C13'),
 'C14': ('model_checking', 'SdCard.HostLegalWhy is evaluated by TLC on every command frame, data block and token the driver puts on the bus in every C12/C13 scenario, including calls after errors and re-initialisation', 'TLA+ protocol acceptor (SdCard.HostLegalWhy) over every recorded bus event', '7 C14'),
 'C15': ('model_checking', 'Mount.tla (Valid, Layout): every generated valid layout (blocks per cluster 1..128, cluster-count boundaries, reserved/FATs/root entries/16-32-bit totals/partition slots) is driven through open/list/read/create/remount and validated by FatTrace, the formatter is cross-checked against Mount.Layout; every field of MBR, boot sector and info sector at its boundary values, random mutations and random sectors go through open_volume and MountTrace (panic = violation; Valid and refused = violation)', 'TLA+ Mount.Valid/Layout as oracle over enumerated valid layouts and field mutations (MountTrace, FatTrace)', '7 C15'),
 'C17': ('model_checking', 'Lfn.tla: lossy UTF-16 decoding, buffer fit rule and the fragment-run acceptor; 40 k buffer vectors (code-unit classes at fragment boundaries x buffer sizes around the threshold) through the real LfnBuffer, and directories packed with every short symbol sequence of fragment kinds through the real iterate_dir_lfn, all validated by TLC', 'TLA+ Lfn.BufferText / Lfn.LfnFor as oracle for LfnBuffer vectors and listing traces', '7 C17'),
 'C18': ('exploration', 'Codec.tla / Sfn.tla evaluated by TLC on vectors from the implementation: all date and all time words, calendar boundaries, directory entries over all attribute bytes x FAT types x boundary clusters/sizes (decode, encode via the guarded hook, round trip), all strings up to length 4-5 over a 12-class alphabet plus structured names; native loops over (date,time) pairs and all calendar days', 'TLC-evaluated transcriptions of the codecs (Codec.tla, Sfn.tla) as oracle over enumerated inputs', '7 C18'),
 'C19': ('exploration', 'MCCrc: both shift registers model-checked over every register value with the linearity/bijectivity/self-annihilation/error-detection ASSUMEs; Crc.tla evaluated by TLC on message vectors from the implementation; native comparison on all 2^24 three-byte messages', 'TLC model of the CRC LFSRs + TLC-evaluated Crc.tla as oracle', '7 C19'),
 'C16': ('model_checking', 'FatCopiesEqual at every Return (window values in TLA+, byte comparison of the regions by the harness); InfoTruthful at flush/close/close_volume for correct, unknown, stale and out-of-range records', 'TLA+ invariants FatCopiesEqual/InfoTruthful on validated traces', '7 C16'),
}
ENGINES = [
 dict(name='pure-vectors', path='check', serves_properties=['C15', 'C17', 'C18', 'C19'],
      kind_free_text='harness emits input/output vectors of the real functions; TLC validates each against the transcribed TLA+ definition (CrcTrace, CodecTrace, LfnTrace, MountTrace) and model-checks the CRC registers (MCCrc)'),
 dict(name='sd-trace', path='check', serves_properties=['C12', 'C13', 'C14'],
      kind_free_text='the real SdCard driver against a simulated card behind embedded_hal SpiDevice (harness/src/sim.rs); TLC validates the bus-event trace against spec/SdTrace.tla (SdCard.tla)'),
 dict(name='fs-trace', path='check', serves_properties=sorted(k for k in CHECKS if k not in ('C12', 'C13', 'C14', 'C15', 'C17', 'C18', 'C19')),
      kind_free_text='Rust harness (harness/) drives the real VolumeManager over a logging sparse block device; TLC validates the NDJSON trace against spec/FatTrace.tla (FatApi + FatDisk + FatInv)'),
]
SD_NOTE = ('Trusted: TLC; the framing parser of the simulated card (harness/src/sim.rs), whose replies are validated against SdCard.tla event by event; '
           'the reading of the SD specification transcribed in SdCard.tla (one idle byte before busy after the stop token, CMD12 allowed to abort a multi-block write).')
PURE_NOTE = ('Trusted: TLC evaluating the transcribed definitions (Crc, Codec, Sfn, Lfn, Mount .tla); the vector generators of harness/src/pure.rs and mount.rs; the guarded hook DirEntry::verif_serialize forwards to the real serialiser.')
checks = []
for pid, (level, text, tech, ref) in sorted(CHECKS.items()):
    sd = pid in ('C12', 'C13', 'C14')
    pure = pid in ('C15', 'C17', 'C18', 'C19')
    checks.append(dict(property_id=pid, quick_cmd='./check %s --tier quick' % pid, thorough_cmd='./check %s --tier thorough' % pid,
                       evidence_file='evidence/%s.json' % pid, replay_cmd_template='./check %s --replay {path}' % pid,
                       engine='sd-trace' if sd else ('pure-vectors' if pure else 'fs-trace'), level_claimed=dict(category=level, text=text, design_ref='DESIGN.md section ' + ref),
                       level_note=SD_NOTE if sd else (PURE_NOTE if pure else FS_NOTE), technique=tech))
na = [dict(property_id=p['id'], reason='check under construction in this build phase (DESIGN.md section 7 describes the planned TLA+ model and conformance harness)')
      for p in props if p['id'] not in CHECKS]
m = dict(version=1,
         setup_cmd='cd harness && cp -n /repo/Cargo.lock Cargo.lock; CARGO_NET_OFFLINE=true cargo build --offline',
         hooks=dict(guard='embedded_sdmmc_verif', enable='harness/.cargo/config.toml passes --cfg embedded_sdmmc_verif; no source hooks were needed (block device, time source, SPI are traits the harness implements)',
                    baseline_off_cmd='cd /repo && cargo test --workspace --no-fail-fast --offline', source_commits=['53510b6'], add_only=True),
         engines=ENGINES, checks=checks, not_applicable=na,
         notes='Known findings: known_findings.json. Fixes of genuine defects are the "fix:" commits in /repo.')
json.dump(m, open(os.path.join(ROOT, 'MANIFEST.json'), 'w'), indent=1)
print('checks:', len(checks), 'not_applicable:', len(na))
