"""Orchestration helpers: hashing, harness build, TLC runner, TLA value parser, evidence, known findings."""
import hashlib, json, os, re, subprocess, sys, time, glob, shutil

ROOT = os.path.dirname(os.path.dirname(os.path.abspath(__file__)))
REPO = '/repo'
OUT = os.path.join(ROOT, 'out')
SPEC = os.path.join(ROOT, 'spec')
HARNESS = os.path.join(ROOT, 'harness')
VH = os.path.join(HARNESS, 'target', 'debug', 'vh')
TMP = os.path.join(OUT, 'tmp')

class ToolError(Exception):
    pass

def sh(cmd, **kw):
    return subprocess.run(cmd, shell=isinstance(cmd, str), stdout=subprocess.PIPE, stderr=subprocess.STDOUT, text=True, **kw)

def files_hash(paths):
    h = hashlib.sha256()
    for p in sorted(paths):
        if os.path.isfile(p):
            h.update(p.encode())
            with open(p, 'rb') as fh:
                h.update(fh.read())
    return h.hexdigest()

def repo_files():
    fs = glob.glob(REPO + '/src/**/*.rs', recursive=True) + [REPO + '/Cargo.toml', REPO + '/Cargo.lock', REPO + '/build.rs']
    return fs

def verif_files():
    return (glob.glob(SPEC + '/*.tla') + glob.glob(SPEC + '/*.cfg') + glob.glob(HARNESS + '/src/*.rs') +
            [HARNESS + '/Cargo.toml', ROOT + '/check', ROOT + '/known_findings.json'] + glob.glob(ROOT + '/lib/*.py'))

def cache_key(*extra):
    return hashlib.sha256((files_hash(repo_files()) + files_hash(verif_files()) + '|'.join(map(str, extra))).encode()).hexdigest()[:24]

def prune_cache(keep=48, min_age=3 * 3600):
    """results are cached per source state; drop all but the newest `keep` entries once they are older than `min_age`"""
    cdir = os.path.join(OUT, 'cache')
    try:
        ents = sorted(((os.path.getmtime(os.path.join(cdir, n)), n) for n in os.listdir(cdir)), reverse=True)
    except OSError:
        return
    now = time.time()
    for mt, n in ents[keep:]:
        if now - mt > min_age:
            pth = os.path.join(cdir, n)
            if os.path.isdir(pth):
                shutil.rmtree(pth, ignore_errors=True)
            else:
                try:
                    os.unlink(pth)
                except OSError:
                    pass

def build_harness():
    os.makedirs(TMP, exist_ok=True)
    lock = os.path.join(HARNESS, 'Cargo.lock')
    if not os.path.exists(lock):
        shutil.copy(REPO + '/Cargo.lock', lock)
    env = dict(os.environ, CARGO_NET_OFFLINE='true')
    r = sh(['cargo', 'build', '--offline'], cwd=HARNESS, env=env)
    if r.returncode != 0:
        sys.stdout.write('\n'.join(l for l in r.stdout.splitlines() if 'error' in l.lower())[-3000:] + r.stdout[-1500:])
        raise ToolError('harness build failed (does /repo still compile?)')
    return VH

# ---------------------------------------------------------------------------------------------- TLC
def run_tlc(module, cfg, env=None, workers=1, timeout=600, tag='tlc', extra=None, heap='3g', cwd=SPEC):
    meta = os.path.join(TMP, 'meta-%s-%d-%d' % (tag, os.getpid(), int(time.time() * 1000) % 100000))
    tmpd = os.path.join(TMP, 'jtmp-%s-%d' % (tag, os.getpid()))
    os.makedirs(tmpd, exist_ok=True)
    e = dict(os.environ)
    e['JAVA_TOOL_OPTIONS'] = '-Xss1g -Xmx%s -Dtlc2.tool.queue.IStateQueue=StateDeque -Djava.io.tmpdir=%s' % (heap, tmpd)
    if env:
        e.update(env)
    cmd = ['timeout', str(timeout), 'tlc', '-workers', str(workers), '-metadir', meta, '-cleanup', '-noGenerateSpecTE',
           '-config', cfg] + (extra or []) + [module]
    t0 = time.time()
    r = subprocess.run(cmd, cwd=cwd, env=e, stdout=subprocess.PIPE, stderr=subprocess.STDOUT, text=True)
    shutil.rmtree(meta, ignore_errors=True)
    shutil.rmtree(tmpd, ignore_errors=True)
    return r.returncode, r.stdout, time.time() - t0

_tok = re.compile(r'\s*(<<|>>|\{|\}|\[|\]|\|->|,|"(?:[^"\\]|\\.)*"|-?\d+|TRUE|FALSE|[A-Za-z_][A-Za-z0-9_]*)')

def parse_tla(s, pos=0):
    """parse one TLA+ value (tuples, sets, strings, ints, booleans, records) -> python"""
    m = _tok.match(s, pos)
    if not m:
        raise ValueError('bad TLA value at %d: %r' % (pos, s[pos:pos + 40]))
    t = m.group(1)
    pos = m.end()
    if t == '<<' or t == '{':
        close = '>>' if t == '<<' else '}'
        out = []
        while True:
            m2 = _tok.match(s, pos)
            if m2 and m2.group(1) == close:
                return out, m2.end()
            if m2 and m2.group(1) == ',':
                pos = m2.end()
                continue
            v, pos = parse_tla(s, pos)
            out.append(v)
    if t == '[':
        rec = {}
        while True:
            m2 = _tok.match(s, pos)
            if m2.group(1) == ']':
                return rec, m2.end()
            if m2.group(1) == ',':
                pos = m2.end()
                continue
            key = m2.group(1)
            m3 = _tok.match(s, m2.end())
            assert m3.group(1) == '|->'
            v, pos = parse_tla(s, m3.end())
            rec[key] = v
    if t.startswith('"'):
        return bytes(t[1:-1], 'utf-8').decode('unicode_escape'), pos
    if t == 'TRUE':
        return True, pos
    if t == 'FALSE':
        return False, pos
    if re.match(r'-?\d+$', t):
        return int(t), pos
    return t, pos

def tla_prints(stdout, head):
    """all printed tuples <<"head", ...>> in TLC output"""
    out = []
    for m in re.finditer(r'<<\s*"%s"' % head, stdout):
        try:
            v, _ = parse_tla(stdout, m.start())
            out.append(v)
        except Exception as ex:  # pragma: no cover
            out.append(['PARSE-ERROR', str(ex)])
    return out

def tlc_stats(stdout):
    m = re.search(r'(\d+) states generated, (\d+) distinct states found', stdout)
    if not m:
        return None
    return dict(generated=int(m.group(1)), distinct=int(m.group(2)))

# ---------------------------------------------------------------------------------------------- findings / evidence
def load_findings():
    p = os.path.join(ROOT, 'known_findings.json')
    if not os.path.exists(p):
        return []
    return json.load(open(p))['findings']

def match_finding(findings, prop, tag, detail):
    for f in findings:
        if f.get('status') != 'known' or f['property'] != prop:
            continue
        sig = f['signature']
        if sig.get('tag') and sig['tag'] != tag:
            continue
        if sig.get('detail') and not re.search(sig['detail'], detail or ''):
            continue
        return f
    return None

def write_evidence(prop, tier, seed, level, coverage, assumptions, wall, violations):
    os.makedirs(os.path.join(ROOT, 'evidence'), exist_ok=True)
    ev = dict(property_id=prop, tier=tier, seed=seed, level=level, coverage=coverage, assumptions=assumptions,
              wall_s=round(wall, 2), violations=violations)
    with open(os.path.join(ROOT, 'evidence', prop + '.json'), 'w') as fh:
        json.dump(ev, fh, indent=1, default=str)
