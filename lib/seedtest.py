#!/usr/bin/env python3
"""Confirm a seeded change (sub-agent mutant) and run the registered checks against it.
usage: seedtest.py <worktree> <seed-id> <property> [check ids...]"""
import json, os, shutil, subprocess, sys, time
wt, sid, prop = sys.argv[1], sys.argv[2], sys.argv[3]
checks = sys.argv[4:] or [prop]
mdir = os.path.join(wt, 'MUTANT')
dst = os.path.join('/verif/seeded', sid)
os.makedirs(dst, exist_ok=True)
env = dict(os.environ, CARGO_TARGET_DIR=os.path.join(wt, 'target'), CARGO_NET_OFFLINE='true')
def run(cmd, cwd, **kw):
    r = subprocess.run(cmd, shell=True, cwd=cwd, env=env, stdout=subprocess.PIPE, stderr=subprocess.STDOUT, text=True, **kw)
    return r.returncode, r.stdout
meta = dict(id=sid, property=prop, ran=[])
# 0. normalise the worktree: exactly the delivered patch on top of HEAD (agents sharing `git stash` can mix hunks)
run('git checkout -- src && git apply MUTANT/patch.diff', wt)
# 1. with the change: the existing suite passes (demo excluded), the demo fails
rc, out = run('git status --short src | head -5; cargo test --offline --no-fail-fast 2>&1 | grep -E "^test result|^test .*FAILED|Running" ', wt)
lines = out.splitlines()
cur = ''
suite_fail, demo_fail_with = [], False
for l in lines:
    if 'Running' in l:
        cur = l
    elif 'FAILED' in l:
        if 'mutant_demo' in cur:
            demo_fail_with = True
        else:
            suite_fail.append(cur + ' :: ' + l)
meta['ran'].append(dict(cmd='cargo test --offline --no-fail-fast (change applied)', existing_tests_pass=not suite_fail, demo_fails=demo_fail_with))
# 2. without the change: the demo passes
run('git checkout -- src', wt)
rc2, out2 = run('cargo test --offline --test mutant_demo 2>&1 | grep -E "^test result"', wt)
run('git apply MUTANT/patch.diff', wt)
demo_pass_without = 'ok.' in out2 and 'FAILED' not in out2
meta['ran'].append(dict(cmd='git checkout -- src; cargo test --offline --test mutant_demo', demo_passes=demo_pass_without))
meta['confirmed'] = (not suite_fail) and demo_fail_with and demo_pass_without
for f in ('patch.diff', 'mutant_demo.rs', 'README.md'):
    if os.path.exists(os.path.join(mdir, f)):
        shutil.copy(os.path.join(mdir, f), os.path.join(dst, f))
# 3. the registered checks against the change, applied to /repo and undone straight afterwards
res = {}
if meta['confirmed'] and not os.environ.get('SEED_CONFIRM_ONLY'):
    rc, out = run('git -C /repo apply %s' % os.path.join(dst, 'patch.diff'), '/verif')
    if rc != 0:
        # /repo has moved on since the worktree was made (a later fix: commit): merge
        rc, out = run('git -C /repo apply --3way %s && git -C /repo reset -q' % os.path.join(dst, 'patch.diff'), '/verif')
        if rc != 0:
            run('git -C /repo reset -q; git -C /repo checkout -- .', '/verif')
    if rc != 0:
        meta['apply_error'] = out[-500:]
    else:
        try:
            for c in checks:
                t0 = time.time()
                r = subprocess.run('./check %s --tier quick' % c, shell=True, cwd='/verif', stdout=subprocess.PIPE, stderr=subprocess.STDOUT, text=True)
                v = [l for l in r.stdout.splitlines() if l.startswith('VIOLATION')]
                res[c] = dict(exit=r.returncode, violations=[x[:400] for x in v[:4]], n_violations=len(v), wall=round(time.time() - t0, 1), tail=r.stdout.splitlines()[-1][:300] if r.stdout else '')
        finally:
            run('git -C /repo checkout -- .', '/verif')
meta['checks'] = res
meta['detected_by'] = [c for c, r in res.items() if r['exit'] == 1]
readme = open(os.path.join(dst, 'README.md')).read() if os.path.exists(os.path.join(dst, 'README.md')) else ''
meta['needs'] = readme[:1500]
json.dump(meta, open(os.path.join(dst, 'meta.json'), 'w'), indent=1)
print(json.dumps({k: meta[k] for k in ('id', 'confirmed', 'detected_by')}), {c: (r['exit'], r['n_violations']) for c, r in res.items()})
