#!/usr/bin/env python3
"""Regression over the seeded changes: apply each seeded/<id>/patch.diff to /repo, run the quick check of its property,
undo.  Prints one line per change; exit 1 if a change is no longer detected.  (Not a registered check: it modifies /repo's
working tree while it runs and restores it afterwards.)"""
import json, os, subprocess, sys, time
root = os.path.dirname(os.path.dirname(os.path.abspath(__file__)))
REPO = os.environ.get('SEED_REPO', '/repo')      # a private clone when the checks of this copy of /verif were pointed at one
ids = sys.argv[1:] or sorted(os.listdir('/verif/seeded'))
missed = []
stale = []
for sid in ids:
    pd = os.path.join('/verif/seeded', sid, 'patch.diff')
    if not os.path.exists(pd):
        continue
    prop = sid.split('-')[0]
    mp = os.path.join('/verif/seeded', sid, 'meta.json')
    if os.path.exists(mp):
        det = json.load(open(mp)).get('detected_by') or []
        if det and prop not in det:
            prop = det[0]          # caught by a neighbouring property's check only (recorded in DESIGN.md)
    r = subprocess.run(['git', '-C', REPO, 'apply', pd], stdout=subprocess.PIPE, stderr=subprocess.STDOUT, text=True)
    if r.returncode != 0:
        # /repo has moved on since the change was written (later fix: commits): merge; a change that conflicts with a later fix
        # is reported as stale, not as missed
        r = subprocess.run(['git', '-C', REPO, 'apply', '--3way', pd], stdout=subprocess.PIPE, stderr=subprocess.STDOUT, text=True)
        subprocess.run(['git', '-C', REPO, 'reset', '-q'])
        if r.returncode != 0 or 'with conflicts' in r.stdout:
            subprocess.run(['git', '-C', REPO, 'checkout', '--', '.'])
            print(sid, 'STALE (no longer applies to the repaired tree)', flush=True)
            stale.append(sid)
            continue
    t0 = time.time()
    try:
        c = subprocess.run(['./check', prop, '--tier', 'quick'], cwd=root, stdout=subprocess.PIPE, stderr=subprocess.STDOUT, text=True)
    finally:
        subprocess.run(['git', '-C', REPO, 'checkout', '--', '.'])
    nv = sum(1 for l in c.stdout.splitlines() if l.startswith('VIOLATION'))
    print('%s exit=%d violations=%d %.0fs' % (sid, c.returncode, nv, time.time() - t0), flush=True)
    if c.returncode != 1:
        missed.append(sid)
print('STALE:', stale)
print('NOT DETECTED:', missed)
sys.exit(1 if missed else 0)
