"""spec -> impl for the SD side: behaviours of the driver model (TLC simulation of MCSdSim = SdHost x SdCard) are turned into
scenarios for the real driver: the calls, the card's misbehaviours at exactly the bus primitive where the model had them, and the
result and command sequence the model's driver produced.  The real traces are validated by SdTrace like every other scenario;
in addition the real results and command sequences are compared with the model's (MODEL-DRIFT)."""
import json, os, random, re
from common import *
import sdgen

CFG = '''INIT SimInit
NEXT SimNext
CONSTANTS
  ArmMax = %(arm)d
  Kind = "%(kind)s"
  UseCrc = %(crc)s
  NB = 3
  MaxN = 3
  MaxFaults = %(faults)d
  MaxOps = %(ops)d
  A41Set = %(a41)s
  Retries = 2
  LoopBud = 5
  BugNoStopWait = FALSE
  BugIgnoreR1 = FALSE
  BugNoTerminate = FALSE
  BugKeepType = FALSE
  BugNoStatus = FALSE
  BugPreCount = FALSE
INVARIANTS TourDone Legal ReadExact WriteExact NowhereElse KindRight HealthyOk FaultIsError FailedInitForgets
CHECK_DEADLOCK FALSE
'''

def sim_tours(kind, crc, num=10, seed=1, faults=2, ops=6, a41='{0, 1, 2}'):
    cfg = 'MCSdSim-%s-%s-%d-%d.cfg' % (kind, 'crc' if crc else 'nocrc', faults, ops)
    path = os.path.join(OUT, 'tmp', cfg)
    os.makedirs(os.path.dirname(path), exist_ok=True)
    open(path, 'w').write(CFG % dict(kind=kind, crc='TRUE' if crc else 'FALSE', faults=faults, ops=ops, a41=a41, arm=10 * ops))
    rc, out, wall = run_tlc('MCSdSim.tla', path, workers=1, timeout=600, tag='sdsim-%s-%s-%d-%d' % (kind, crc, faults, ops),
                            extra=['-simulate', 'num=%d' % num, '-depth', '400', '-seed', str(seed)], heap='2g')
    if 'violated' in out or 'Error:' in out:
        raise ToolError('MCSdSim: the driver model violates a property during simulation: ' + out[-2500:])
    tours, seen = [], set()
    for r in tla_prints(out, 'TOUR'):
        if r[1] not in seen:
            seen.add(r[1])
            tours.append(json.loads(r[1]))
    if not tours:
        raise ToolError('MCSdSim produced no behaviours: ' + out[-1500:])
    return tours

def to_scenario(sid, kind, crc, tour, rng):
    csd = sdgen.CSDS[kind][0]
    nblocks = sdgen.cap(csd)
    base = rng.choice([0, 1, 5, 127, 128, 1000, nblocks - 3])
    ops, misb, expect = [], [], []
    ncmd = ndata = nwr = ntok = 0
    cur = None
    last_data = None
    lost = False
    for e in tour['log']:
        k = e[0]
        if k == 'call':
            if lost:
                break
            op, b, n = e[1], e[2], e[3]
            blk = nblocks if b >= 3 else base + b
            ops.append(sdgen.O(op, blk=blk, n=n) if op in ('read', 'write') else sdgen.O(op))
            cur = dict(op=op, cmds=[], res=None, blk=blk, delivered=0)
            last_data = None
        elif k == 'cmd':
            ncmd += 1
            cur['cmds'].append(e[1])
            if e[1] == 12 and cur['op'] == 'read' and last_data not in ('notoken', 'spi') and cur['blk'] + cur['delivered'] < nblocks:
                ndata += 1          # the card had the next block ready when the stop command arrived
            if e[2] != 'none':
                misb.append(dict(when='cmd', nth=ncmd, what=e[2]))
                if e[1] == 12 and e[2] in ('silent', 'r1err'):
                    lost = True     # the card keeps streaming: nothing after this call is predictable
                    cur['unpredictable'] = True
        elif k == 'data':
            ndata += 1
            cur['delivered'] += 1
            last_data = e[1]
            if e[1] != 'ok':
                misb.append(dict(when='data', nth=ndata, what=e[1], arg=rng.randrange(4096)))
        elif k == 'wr':
            ntok += 1
            if e[1] == 'spitok':
                misb.append(dict(when='tok', nth=ntok, what='spi'))
            else:
                nwr += 1
                if e[1] != 'ok':
                    misb.append(dict(when='write', nth=nwr, what=e[1]))
        elif k == 'stop':
            ntok += 1
        elif k == 'stopspi':
            ntok += 1
            misb.append(dict(when='tok', nth=ntok, what='spi'))
        elif k == 'ret':
            cur['res'] = None if cur.get('unpredictable') else e[1]
            expect.append(cur)
    a41 = tour['a41']
    timing = dict(resp=rng.randrange(9), tok=rng.choice([0, 1, 2, 8, 50]), busy=rng.choice([0, 1, 3, 40, 700]), acmd41=a41 if a41 <= 5 else 1000000)
    if rng.random() < 0.3:
        timing['random'] = True
    for x in expect:
        x.pop('blk', None)
        x.pop('delivered', None)
    sc = dict(id=sid, kind=kind, crc=crc, csd=csd, timing=timing, seed=rng.randrange(1 << 30), misb=misb, ops=ops, retries=2, expect=expect[:len(ops)])
    if a41 > 5:
        # a card that never becomes ready: each call polls to the end of the driver's time-out (tens of thousands of command pairs,
        # slow answers on top): the simulated card's own traffic allowance must not run out first
        sc['budget'] = 12000000
    return sc

def scenarios(tier, seed):
    import concurrent.futures as cf
    rng = random.Random(seed * 31 + 7)
    quick = tier == 'quick'
    jobs = []
    for kind in sdgen.KINDS:
        for crc in (True, False):
            for faults, num in ((1, 25 if quick else 300), (2, 25 if quick else 500)):
                jobs.append((kind, crc, 'T%%d-%s-%s-f%d' % (kind, 'crc' if crc else 'nocrc', faults), dict(num=num, seed=seed * 100 + faults, faults=faults)))
            # a card that never leaves the idle state: every call runs into the ACMD41 time-out (20000 commands each)
            jobs.append((kind, crc, 'TN%%d-%s-%s' % (kind, 'crc' if crc else 'nocrc'), dict(num=2 if quick else 6, seed=seed * 100 + 9, faults=1, ops=2, a41='{9}')))
    with cf.ThreadPoolExecutor(max_workers=8) as ex:
        tours = list(ex.map(lambda j: sim_tours(j[0], j[1], **j[3]), jobs))
    S = []
    for j, ts in zip(jobs, tours):
        for i, t in enumerate(ts):
            S.append(to_scenario(j[2] % i, j[0], j[1], t, rng))
    return S

def norm(cmds):
    """loop budgets differ between the model (small constants) and the driver: collapse immediate repetitions of a command
    and of a pair of commands (CMD0 retries, the CMD8 loop, the CMD55/ACMD41 loop)"""
    out = []
    for c in cmds:
        out.append(c)
        while True:
            if len(out) >= 2 and out[-1] == out[-2]:
                out.pop()
            elif len(out) >= 4 and out[-2:] == out[-4:-2]:
                del out[-2:]
            else:
                break
    return out

def drift(scs, traces):
    """compare, per tour scenario, the real calls' results and command sequences with the model's"""
    byid = {s['id']: s for s in scs if s.get('expect') is not None}
    out = []
    steps = 0
    for tr in traces:
        sid, calls, cur = None, [], None
        def finish():
            nonlocal steps
            if sid in byid:
                exp = byid[sid]['expect']
                for i, (x, r) in enumerate(zip(exp, calls)):
                    steps += 1
                    rres = 'ok' if r['k'] == 'ok' else r['e']
                    if x['op'] == 'card_type':      # get_card_type has no error channel: None after a failed initialisation
                        rres = x['res'] if (x['res'] == 'ok') == (r['e'] != 'None') else 'card type ' + r['e']
                    if (x['res'] is not None and x['res'] != rres) or norm(x['cmds']) != norm(r['cmds']):
                        out.append(dict(hid=sid, call=i, op=x['op'], model=[x['res'], norm(x['cmds'])], real=[rres, norm(r['cmds'])]))
                        break
        with open(tr) as fh:
            for line in fh:
                e = json.loads(line)
                ev = e['ev']
                if ev == 'Reset':
                    finish()
                    sid, calls, cur = e['id'], [], None
                elif ev == 'Call':
                    cur = dict(cmds=[])
                elif ev == 'Cmd' and cur is not None:
                    cur['cmds'].append(e['idx'])
                elif ev == 'Ret' and cur is not None:
                    cur['k'], cur['e'] = e['k'], e['e']
                    calls.append(cur)
                    cur = None
        finish()
    return out, steps
