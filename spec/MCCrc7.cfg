SPECIFICATION Spec
CONSTANT W = 7
INVARIANT TypeOK
CHECK_DEADLOCK FALSE
