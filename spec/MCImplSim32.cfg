SPECIFICATION SimSpec
CONSTANTS CntChoices <- CntExact
          N = 4  EPS = 4  NF = 1  ROOT16 = FALSE  RS = 2  SPC = 2  Names = {"a", "b", "c"}  MaxLen = 1  MaxOpen = 1  K = 14
          BugF1 = FALSE BugF2 = FALSE BugF3 = FALSE BugF9 = FALSE BugF18 = FALSE BugF15 = FALSE InfoModel = TRUE HintChoices = {3}
CONSTRAINT Bound
INVARIANTS Emit Emit2 CrashSafe WellFormed SpaceExact
CHECK_DEADLOCK FALSE
