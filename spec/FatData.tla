------------------------------- MODULE FatData -------------------------------
(***************************************************************************)
(* The data path of one open file the way src/volume_mgr.rs performs it     *)
(* (read, write, the seeks, find_data_on_disk with its cached               *)
(* (chain offset, cluster) cursor, allocation of the first and of further   *)
(* clusters, truncation on open, re-opening), on a chain whose clusters lie  *)
(* in any order on the medium.  TLC visits every history of a few calls     *)
(* over every chain shape and checks C01:                                   *)
(*   - a read returns exactly the bytes the history wrote there (ReadExact), *)
(*   - what the chain holds is the file (ChainHoldsFile), so that any other  *)
(*     reader of the medium finds the same bytes,                            *)
(*   - the two assertions of the code never fail (NoAssert), no call fails   *)
(*     for another reason than a full volume (OnlyDiskFull).                 *)
(* Sizes are in units; a block has BL units, a cluster BPC blocks.           *)
(* The Bug* constants re-introduce slips of the kind the seeded changes made *)
(* in this code (calibration: each makes TLC report a violation).            *)
(* Behaviours of this model are replayed on the real code (suite datatours). *)
(***************************************************************************)
EXTENDS Integers, Sequences, FiniteSets, TLC

CONSTANTS BL, BPC, NC, MaxLen, MaxOps,
          BugRewindHalf,     \* "rewinding to start" resets only the cluster half of the cursor
          BugLateCursor,     \* find_data_on_disk moves the caller's cursor only when the walk succeeded
          BugStepInCluster   \* read steps through the rest of a cluster without re-translating the offset

CS == BL * BPC
Clusters == 2..(NC + 1)
Free == 0
EOC == -1

VARIABLES fat, first, len, off, cur, data, ghost, nops, res, open, lastOp
vars == <<fat, first, len, off, cur, data, ghost, nops, res, open, lastOp>>
view == <<fat, first, len, off, cur, data, ghost, nops, res, open>>

Min2(a, b) == IF a < b THEN a ELSE b

Init ==
  /\ fat = [c \in Clusters |-> Free] /\ first = 0 /\ len = 0 /\ off = 0 /\ cur = <<0, 0>>
  /\ data = [c \in Clusters |-> [i \in 0..(CS - 1) |-> 0]]
  /\ ghost = <<>> /\ nops = 0 /\ res = [k |-> "none"] /\ open = TRUE /\ lastOp = <<"init">>

\* ------------------------------------------------------------------ reading the chain like any FAT reader
RECURSIVE ChainFrom(_, _)
ChainFrom(c, fuel) == IF c \notin Clusters \/ fuel = 0 THEN <<>>
                      ELSE IF fat[c] = EOC THEN <<c>> ELSE IF fat[c] = Free THEN <<c, 0>> ELSE <<c>> \o ChainFrom(fat[c], fuel - 1)
Chain == IF first = 0 THEN <<>> ELSE ChainFrom(first, NC)
ChainOK == \A i \in 1..Len(Chain) : Chain[i] \in Clusters
ValueAt(i) == LET k == i \div CS IN IF k + 1 <= Len(Chain) /\ Chain[k + 1] \in Clusters THEN data[Chain[k + 1]][i % CS] ELSE -1

\* ------------------------------------------------------------------ find_data_on_disk  (volume_mgr.rs 1181-1221)
\* walks n links from cursor s; stops in front of the end-of-chain mark (the cursor keeps what it reached)
RECURSIVE Walk(_, _, _)
Walk(F, s, n) == IF n = 0 THEN [ok |-> TRUE, s |-> s]
                 ELSE IF s[2] \notin Clusters \/ F[s[2]] \in {EOC, Free} THEN [ok |-> FALSE, s |-> s]
                 ELSE Walk(F, <<s[1] + CS, F[s[2]]>>, n - 1)
\* result: [ok, s (the caller's cursor afterwards), c (cluster), io (offset inside the cluster)]
Find(F, st, fst, des) ==
  LET s0 == IF des < st[1] THEN <<0, fst>> ELSE st
      w == Walk(F, s0, (des - s0[1]) \div CS)
      sOut == IF w.ok \/ ~BugLateCursor THEN w.s ELSE st
  IN [ok |-> w.ok, s |-> sOut, c |-> w.s[2], io |-> des - w.s[1]]

\* ------------------------------------------------------------------ read  (volume_mgr.rs 745-786)
\* one iteration per block piece; acc = the values copied so far
RECURSIVE ReadLoop(_, _, _, _, _)
ReadLoop(c0, o, space, acc, run) ==
  IF space = 0 \/ o >= len THEN [ok |-> TRUE, cur |-> c0, off |-> o, vals |-> acc, assert |-> FALSE]
  ELSE LET useRun == BugStepInCluster /\ run[2] > 0
           \* (the slip counts one block too many when the piece starts on a block boundary: the step then leaves the
           \*  cluster and takes the block that follows it on the medium)
           rc == IF run[3] >= CS THEN (IF run[1] + 1 \in Clusters THEN run[1] + 1 ELSE run[1]) ELSE run[1]
           f == IF useRun THEN [ok |-> TRUE, s |-> c0, c |-> rc, io |-> run[3] % CS] ELSE Find(fat, c0, first, o)
       IN IF ~f.ok THEN [ok |-> FALSE, cur |-> f.s, off |-> o, vals |-> acc, assert |-> FALSE]
          ELSE IF f.io >= CS \/ f.io < 0 THEN [ok |-> FALSE, cur |-> f.s, off |-> o, vals |-> acc, assert |-> TRUE]    \* assert!(offset_from_cluster < bytes_per_cluster)
          ELSE LET avail == IF useRun THEN BL ELSE BL - (o % BL)
                   n == Min2(Min2(avail, space), len - o)
                   got == [i \in 1..n |-> data[f.c][(f.io + i - 1) % CS]]
                   \* (the slip: after the first piece in a cluster the following blocks of the cluster are taken without translation)
                   blocksLeft == IF useRun THEN run[2] - 1 ELSE (CS - f.io) \div BL
                   run2 == IF useRun THEN <<run[1], blocksLeft, run[3] + BL>> ELSE <<f.c, blocksLeft, (f.io \div BL + 1) * BL>>
               IN ReadLoop(f.s, o + n, space - n, acc \o got, run2)

DoRead(n) ==
  /\ open /\ nops < MaxOps
  /\ LET r == ReadLoop(cur, off, n, <<>>, <<0, 0, 0>>) IN
     /\ cur' = r.cur /\ off' = r.off
     /\ res' = [k |-> IF r.assert THEN "assert" ELSE IF r.ok THEN "read" ELSE "err", from |-> off, vals |-> r.vals]
  /\ nops' = nops + 1 /\ lastOp' = <<"read", n>>
  /\ UNCHANGED <<fat, first, len, data, ghost, open>>

\* ------------------------------------------------------------------ write  (volume_mgr.rs 789-905)
FreeSet(F) == {c \in Clusters : F[c] = Free}
\* the state threaded through the loop: [F, D, cur, off, len, left, k (index of the next value), st]
RECURSIVE WriteLoop(_, _)
WriteLoop(s, tag) ==
  IF s.left = 0 THEN [s EXCEPT !.st = "ok"]
  ELSE LET f0 == Find(s.F, s.cur, s.first, s.off) IN
       IF f0.ok
       THEN LET avail == BL - (s.off % BL)
                n == Min2(avail, s.left)
                D2 == [s.D EXCEPT ![f0.c] = [i \in 0..(CS - 1) |-> IF i >= f0.io /\ i < f0.io + n THEN tag * 100 + s.k + (i - f0.io) ELSE @[i]]]
            IN IF f0.io >= CS \/ f0.io < 0 THEN [s EXCEPT !.st = "assert"]
               ELSE WriteLoop([s EXCEPT !.D = D2, !.cur = f0.s, !.off = @ + n, !.len = IF s.off + n > @ THEN s.off + n ELSE @, !.left = @ - n, !.k = @ + n], tag)
       ELSE \* end of chain: extend behind the cluster the (local) cursor stands on, then look again
            IF FreeSet(s.F) = {} THEN [s EXCEPT !.st = "DiskFull", !.cur = s.cur]
            ELSE [s EXCEPT !.st = "alloc", !.cur = f0.s]       \* the allocation is a separate, nondeterministic step (any free cluster)

\* after an allocation behind cursor cluster p with new cluster c
AfterAlloc(s, c) ==
  LET p == s.cur[2]
      F2 == [s.F EXCEPT ![c] = EOC, ![p] = c]
      f1 == Find(F2, s.cur, s.first, s.off)
  IN IF ~f1.ok THEN [s EXCEPT !.F = F2, !.st = "AllocationError"] ELSE [s EXCEPT !.F = F2, !.st = "go"]

RECURSIVE WriteAll(_, _, _)
\* picks: the clusters the allocator hands out, in order (chosen by the action)
WriteAll(s, tag, picks) ==
  LET r == WriteLoop(s, tag) IN
  IF r.st = "alloc"
  THEN IF picks = <<>> THEN [r EXCEPT !.st = "needpick"]
       ELSE LET a == AfterAlloc(r, Head(picks)) IN IF a.st = "go" THEN WriteAll(a, tag, Tail(picks)) ELSE [a EXCEPT !.unused = Len(picks) - 1]
  ELSE [r EXCEPT !.unused = Len(picks)]

\* all ways to hand out up to k distinct free clusters
RECURSIVE Picks(_, _)
Picks(S, k) == IF k = 0 \/ S = {} THEN {<<>>} ELSE {<<>>} \cup UNION {{<<c>> \o p : p \in Picks(S \ {c}, k - 1)} : c \in S}

DoWrite(n) ==
  /\ open /\ nops < MaxOps /\ off + n <= MaxLen
  /\ \E c1 \in (IF first = 0 THEN FreeSet(fat) ELSE {0}) :
       LET F1 == IF first = 0 THEN [fat EXCEPT ![c1] = EOC] ELSE fat
           fst == IF first = 0 THEN c1 ELSE first
           \* "rewinding to start" (volume_mgr.rs 822-826)
           cur1 == IF cur[2] < fst THEN (IF BugRewindHalf THEN <<cur[1], fst>> ELSE <<0, fst>>) ELSE cur
           s0 == [F |-> F1, D |-> data, cur |-> cur1, off |-> off, len |-> len, left |-> n, k |-> 0, st |-> "go", first |-> fst, unused |-> 0]
       IN \E picks \in Picks(FreeSet(F1), (n + CS - 1) \div CS + 1) :
            LET r == WriteAll(s0, nops + 1, picks) IN
            /\ r.st # "needpick"
            /\ (r.st \in {"ok", "assert", "DiskFull", "AllocationError"})
            /\ r.unused = 0                                                                            \* every pick was used
            /\ fat' = r.F /\ data' = r.D /\ cur' = r.cur /\ off' = r.off /\ len' = r.len /\ first' = fst
            /\ ghost' = [i \in 1..r.len |-> IF i > off /\ i <= r.off THEN (nops + 1) * 100 + (i - off - 1)
                                            ELSE IF i <= Len(ghost) THEN ghost[i] ELSE 0]
            /\ res' = [k |-> r.st]
  /\ nops' = nops + 1 /\ lastOp' = <<"write", n>> /\ open' = open

\* ------------------------------------------------------------------ seeks (filesystem/files.rs), re-opening
DoSeek(o) ==
  /\ open /\ nops < MaxOps /\ o \in 0..len /\ o # off
  /\ off' = o /\ nops' = nops + 1 /\ res' = [k |-> "seek"] /\ lastOp' = <<"seek", o>>
  /\ UNCHANGED <<fat, first, len, cur, data, ghost, open>>
\* close, then open again: "append" (offset at the end), "read" (offset 0), "truncate" (keeps the first cluster, frees the rest)
RECURSIVE FreeChain(_, _, _)
FreeChain(F, c, fuel) == IF c \notin Clusters \/ fuel = 0 \/ F[c] = Free THEN F ELSE FreeChain([F EXCEPT ![c] = Free], IF F[c] = EOC THEN 0 ELSE F[c], fuel - 1)
DoReopen(mode) ==
  /\ nops < MaxOps
  /\ cur' = <<0, first>> /\ open' = TRUE
  /\ CASE mode = "append" -> off' = len /\ UNCHANGED <<fat, len, ghost>>
       [] mode = "read" -> off' = 0 /\ UNCHANGED <<fat, len, ghost>>
       [] mode = "truncate" -> /\ off' = 0 /\ len' = 0 /\ ghost' = <<>>
                               /\ fat' = IF first = 0 \/ fat[first] = EOC THEN fat ELSE [FreeChain(fat, fat[first], NC) EXCEPT ![first] = EOC]
  /\ nops' = nops + 1 /\ res' = [k |-> "open"] /\ lastOp' = <<"reopen", mode>>
  /\ UNCHANGED <<first, data>>

Next == \/ \E n \in {1, BL, BL + 1, CS, CS + 1, 2 * CS} : DoRead(n) \/ DoWrite(n)
        \/ \E o \in 0..MaxLen : DoSeek(o)
        \/ \E m \in {"append", "read", "truncate"} : DoReopen(m)
Spec == Init /\ [][Next]_vars

\* ------------------------------------------------------------------ C01
ReadExact == res.k = "read" => res.vals = [i \in 1..Len(res.vals) |-> ghost[res.from + i]] /\ Len(res.vals) <= len - res.from
ChainHoldsFile == ChainOK /\ Len(Chain) * CS >= len /\ \A i \in 0..(len - 1) : ValueAt(i) = ghost[i + 1]
NoAssert == res.k # "assert"
OnlyDiskFull == res.k \notin {"err", "AllocationError"} /\ (res.k = "DiskFull" => FreeSet(fat) = {})
CursorSane == cur[2] = 0 \/ (cur[2] \in Clusters /\ cur[1] % CS = 0)
\* the cursor, when it is used without rewinding, names the cluster that holds its chain offset
CursorOnChain == (first # 0 /\ cur[2] \in Clusters /\ cur[2] >= first /\ cur[1] \div CS + 1 <= Len(Chain)) => Chain[cur[1] \div CS + 1] = cur[2]
=============================================================================
