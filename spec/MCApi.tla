------------------------------- MODULE MCApi -------------------------------
(***************************************************************************)
(* The API semantics (FatApi) explored on their own: one volume, a root     *)
(* with a plain file, a read-only file and a sub-directory, small limits,   *)
(* every operation with every handle value (open, closed, never issued)     *)
(* and every name.  TLC checks the table invariants of C08 and the typing   *)
(* rules of C07 over all reachable states; its behaviours (operation +      *)
(* the admissible outcome set) are replayed on the real VolumeManager.      *)
(***************************************************************************)
EXTENDS FatApi, TLC

CONSTANTS MaxH,      \* handle values 0..MaxH-1 are tried as arguments; the generator wraps at MaxH when Wrap
          Wrap,      \* TRUE: model the 32-bit wrap of the generator in the small (finds handle reuse, finding F7)
          LimD, LimF,
          OnlyIssued  \* TRUE: only handle values that were issued at some time are used as arguments (what a typed client can do)

VARIABLES hgen, lastOp
mvars == <<dirs, ovols, odirs, ofiles, lim, hgen, lastOp>>
mview == <<dirs, ovols, odirs, ofiles, lim, hgen>>

NA == "4120202020202020202020"     \* "A"          plain file
NR == "5220202020202020202020"     \* "R"          read-only file
ND == "4420202020202020202020"     \* "D"          sub-directory
NN == "4e20202020202020202020"     \* "N"          missing at first
Names == {NA, NR, ND, NN, DotN, DotDotN}
Modes == {"ReadOnly", "Append", "Truncate", "Create", "CreateOrTruncate", "CreateOrAppend"}
Handles == 0..(MaxH - 1)
HandleArgs == IF OnlyIssued THEN {h \in Handles : h < hgen} ELSE Handles

FileE(n, ro) == [n |-> n, k |-> "file", ro |-> ro, len |-> 1, ct |-> 1, mt |-> 1, id |-> 0, data |-> <<7>>]
DirE(n, id) == [n |-> n, k |-> "dir", ro |-> FALSE, len |-> 0, ct |-> 1, mt |-> 1, id |-> id, data |-> <<>>]

MInit ==
  /\ dirs = [v \in {1} |-> [id \in {0, 5} |-> IF id = 0 THEN <<FileE(NA, FALSE), FileE(NR, TRUE), DirE(ND, 5)>>
                                                ELSE <<DirE(DotN, 5), DirE(DotDotN, 0)>>]]
  /\ ovols = <<>> /\ odirs = <<>> /\ ofiles = <<>>
  /\ lim = [d |-> LimD, f |-> LimF, v |-> 1]
  /\ hgen = 0 /\ lastOp = <<"init">>

NextH == IF Wrap THEN (hgen + 1) % MaxH ELSE hgen + 1
Fresh == hgen' = NextH
\* a refused call changes nothing; the label records which errors are admissible
Refuse(label, refs) == UNCHANGED <<dirs, ovols, odirs, ofiles, lim, hgen>> /\ lastOp' = <<label, refs>>
Done(label) == lastOp' = <<label, {}>>

DoOpenVolume ==
  LET refs == OpenVolumeRefs(1, TRUE) IN
  IF refs = {} THEN OpenVolumePost(1, hgen) /\ Fresh /\ Done(<<"open_volume", hgen>>) ELSE Refuse(<<"open_volume", -1>>, refs)
DoCloseVolume(h) ==
  LET refs == CloseVolumeRefs(h) IN
  IF refs = {} THEN CloseVolumePost(h) /\ UNCHANGED hgen /\ Done(<<"close_volume", h>>) ELSE Refuse(<<"close_volume", h>>, refs)
DoOpenRoot(vh) ==
  LET refs == OpenRootRefs(vh) IN
  IF refs = {} THEN OpenRootPost(vh, hgen) /\ Fresh /\ Done(<<"open_root", vh, hgen>>) ELSE Refuse(<<"open_root", vh, -1>>, refs)
DoOpenDir(dh, nm) ==
  LET refs == OpenDirRefs(dh, nm, TRUE) IN
  \* "." on the root: the documentation says it re-opens the directory (decision 3 also admits NotFound; the model takes the documented branch)
  IF refs = {} THEN OpenDirPost(dh, nm, hgen) /\ Fresh /\ Done(<<"open_dir", dh, nm, hgen>>)
  ELSE Refuse(<<"open_dir", dh, nm, -1>>, refs)
DoCloseDir(dh) ==
  LET refs == CloseDirRefs(dh) IN
  IF refs = {} THEN CloseDirPost(dh) /\ UNCHANGED hgen /\ Done(<<"close_dir", dh>>) ELSE Refuse(<<"close_dir", dh>>, refs)
DoOpenFile(dh, nm, mode) ==
  LET refs == OpenFileRefs(dh, nm, TRUE, mode, FALSE) IN
  IF refs = {} THEN OpenFilePost(dh, nm, mode, hgen, 2, Len(dirs[RecOf(odirs, dh).vol][RecOf(odirs, dh).id]) + 1) /\ Fresh /\ Done(<<"open_file", dh, nm, mode, hgen>>)
  ELSE Refuse(<<"open_file", dh, nm, mode, -1>>, refs)
DoWrite(fh) ==
  LET refs == WriteRefs(fh) IN
  IF refs = {} THEN WritePost(fh, <<9>>, 1, 3, TRUE, 0) /\ UNCHANGED hgen /\ Done(<<"write", fh>>) ELSE Refuse(<<"write", fh>>, refs)
DoRead(fh) ==
  LET refs == FileRefs(fh) IN
  IF refs = {} THEN (LET f == RecOf(ofiles, fh) IN ReadPost(fh, IF f.off < Len(FileData(f)) THEN 1 ELSE 0)) /\ UNCHANGED hgen /\ Done(<<"read", fh>>)
  ELSE Refuse(<<"read", fh>>, refs)
DoFlushClose(fh, close) ==
  LET refs == FileRefs(fh) IN
  IF refs = {} THEN (IF close THEN CloseFilePost(fh) ELSE FlushPost(fh)) /\ UNCHANGED hgen /\ Done(<<IF close THEN "close_file" ELSE "flush", fh>>)
  ELSE Refuse(<<IF close THEN "close_file" ELSE "flush", fh>>, refs)
DoDelete(dh, nm) ==
  LET refs == DeleteRefs(dh, nm, TRUE) IN
  IF refs = {} THEN DeletePost(dh, nm) /\ UNCHANGED hgen /\ Done(<<"delete", dh, nm>>) ELSE Refuse(<<"delete", dh, nm>>, refs)
DoMkDir(dh, nm) ==
  LET refs == MkDirRefs(dh, nm, TRUE, FALSE) IN
  IF refs = {} /\ ~MkDirMayRefuse THEN MkDirPost(dh, nm, 10 + Cardinality(DOMAIN dirs[1]), Len(dirs[RecOf(odirs, dh).vol][RecOf(odirs, dh).id]) + 1, 2) /\ UNCHANGED hgen /\ Done(<<"mkdir", dh, nm>>)
  ELSE IF refs = {} THEN Refuse(<<"mkdir", dh, nm>>, {"skip"})       \* table full: both outcomes admissible (named deviation) - not taken
  ELSE Refuse(<<"mkdir", dh, nm>>, refs)

MNext ==
  \/ DoOpenVolume
  \/ \E h \in HandleArgs : DoCloseVolume(h) \/ DoOpenRoot(h) \/ DoCloseDir(h) \/ DoWrite(h) \/ DoRead(h) \/ DoFlushClose(h, TRUE) \/ DoFlushClose(h, FALSE)
  \/ \E h \in HandleArgs, nm \in Names : DoOpenDir(h, nm) \/ DoDelete(h, nm) \/ (nm \in {NN, NA} /\ DoMkDir(h, nm))
  \/ \E h \in HandleArgs, nm \in Names \ {DotN, DotDotN}, m \in Modes : DoOpenFile(h, nm, m)
MSpec == MInit /\ [][MNext]_mvars
Bounded == (hgen < MaxH \/ Wrap) /\ Cardinality(DOMAIN dirs[1]) <= 3
           /\ \A id \in DOMAIN dirs[1] : \A i \in 1..Len(dirs[1][id]) : Len(dirs[1][id][i].data) <= 2

\* ---- C08
AllH == [i \in 1..(Len(ovols) + Len(odirs) + Len(ofiles)) |->
           IF i <= Len(ovols) THEN ovols[i].h ELSE IF i <= Len(ovols) + Len(odirs) THEN odirs[i - Len(ovols)].h ELSE ofiles[i - Len(ovols) - Len(odirs)].h]
HandlesDistinct == \A i, j \in 1..Len(AllH) : i # j => AllH[i] # AllH[j]
LimitsRespected == Len(ovols) <= lim.v /\ Len(odirs) <= lim.d /\ Len(ofiles) <= lim.f
NothingOnClosedVolume == /\ \A i \in 1..Len(odirs) : \E j \in 1..Len(ovols) : ovols[j].vol = odirs[i].vol
                         /\ \A i \in 1..Len(ofiles) : \E j \in 1..Len(ovols) : ovols[j].vol = ofiles[i].vol
\* ---- C07
OpenFilesAreFiles == \A i \in 1..Len(ofiles) : LET f == ofiles[i] IN
   EntIdx(f.vol, f.dir, f.n) # 0 /\ FileEntry(f).k # "dir" /\ (FileEntry(f).ro => ~f.rw)
NoFileOpenTwice == \A i, j \in 1..Len(ofiles) : i # j => <<ofiles[i].vol, ofiles[i].dir, ofiles[i].n>> # <<ofiles[j].vol, ofiles[j].dir, ofiles[j].n>>
OpenDirsAreDirs == \A i \in 1..Len(odirs) : odirs[i].id \in DOMAIN dirs[odirs[i].vol]
ReadOnlyUntouched == LET i == EntIdx(1, 0, NR) IN i # 0 /\ dirs[1][0][i].ro => dirs[1][0][i].data = <<7>>
NamesUniqueM == \A id \in DOMAIN dirs[1] : \A i, j \in 1..Len(dirs[1][id]) : i # j => dirs[1][id][i].n # dirs[1][id][j].n
=============================================================================
