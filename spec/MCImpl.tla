------------------------------- MODULE MCImpl -------------------------------
EXTENDS FatImpl
\* bound the exploration (never the properties): at most MaxCrashes crashes per behaviour
VARIABLE ncrash
MCInit == Init /\ ncrash = 0
MCNext == \/ (Next /\ ~(lastOp' = <<"crash">>) /\ UNCHANGED ncrash)
          \/ (Crash /\ ncrash < 1 /\ ncrash' = ncrash + 1)
MCSpec == MCInit /\ [][MCNext]_<<vars, ncrash>>
MCView == <<view, ncrash>>
=============================================================================
