------------------------------- MODULE MCImpl -------------------------------
EXTENDS FatImpl
CntUnknown == {-1}
CntSmall == {-1, 3, 0}
CntAll == {-1, 3, 0, 1, 9}      \* unknown, exact (N = 4: the root and three free clusters), stale low, stale, stale high
\* bound the exploration (never the properties): at most MaxCrashes crashes per behaviour
VARIABLE ncrash
MCInit == Init /\ ncrash = 0
MCNext == \/ (Next /\ ~(lastOp' = <<"crash">>) /\ UNCHANGED ncrash)
          \/ (Crash /\ ncrash < 1 /\ ncrash' = ncrash + 1)
MCSpec == MCInit /\ [][MCNext]_<<vars, ncrash>>
MCView == <<view, ncrash>>
=============================================================================
