SPECIFICATION SimSpec
CONSTANTS MaxH = 12  Wrap = FALSE  LimD = 2  LimF = 2  OnlyIssued = TRUE  K = 40
CONSTRAINT SimBound
INVARIANTS Emit HandlesDistinct LimitsRespected NothingOnClosedVolume OpenFilesAreFiles NoFileOpenTwice
CHECK_DEADLOCK FALSE
