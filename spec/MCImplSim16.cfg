SPECIFICATION SimSpec
CONSTANTS CntChoices <- CntUnknown
          N = 3  EPS = 4  NF = 2  ROOT16 = TRUE  RS = 2  SPC = 2  Names = {"a", "b"}  MaxLen = 2  MaxOpen = 1  K = 14
          BugF1 = FALSE BugF2 = FALSE BugF3 = FALSE BugF9 = FALSE BugF18 = FALSE BugF15 = FALSE InfoModel = FALSE HintChoices = {0}
CONSTRAINT Bound
INVARIANTS Emit Emit2 CrashSafe WellFormed SpaceExact
CHECK_DEADLOCK FALSE
