------------------------------- MODULE Codec -------------------------------
(***************************************************************************)
(* FAT on-disk layouts as the Microsoft FAT specification gives them: the   *)
(* 32-byte directory entry and the 16-bit date and time words.              *)
(* A slot is a sequence of 32 bytes (1-based here; spec offsets 0-based).    *)
(***************************************************************************)
EXTENDS Integers, Sequences

\* ---- date / time words
DateY(d) == 1980 + d \div 512
DateM(d) == (d \div 32) % 16
DateD(d) == d % 32
TimeH(t) == t \div 2048
TimeMi(t) == (t \div 32) % 64
TimeS2(t) == t % 32                         \* seconds / 2
RepDate(d) == DateM(d) \in 1..12 /\ DateD(d) \in 1..31
RepTime(t) == TimeH(t) <= 23 /\ TimeMi(t) <= 59 /\ TimeS2(t) <= 29
Leap(y) == (y % 4 = 0 /\ y % 100 # 0) \/ y % 400 = 0
DaysIn(y, m) == IF m = 2 THEN (IF Leap(y) THEN 29 ELSE 28) ELSE IF m \in {4, 6, 9, 11} THEN 30 ELSE 31
RealDate(y, m, d) == m \in 1..12 /\ d \in 1..DaysIn(y, m)       \* a day of the calendar (31 April is not one)
EncDate(y, m, d) == (y - 1980) * 512 + m * 32 + d
EncTime(h, mi, s) == h * 2048 + mi * 32 + s \div 2

\* the library's Timestamp: <<year_since_1970, zero_indexed_month, zero_indexed_day, hours, minutes, seconds>>
TsOf(d, t) == <<DateY(d) - 1970, DateM(d) - 1, DateD(d) - 1, TimeH(t), TimeMi(t), TimeS2(t) * 2>>

\* ---- directory entry (offsets of the FAT specification, +1)
Le16(s, o) == s[o + 1] + 256 * s[o + 2]
SlotName(s)    == SubSeq(s, 1, 11)          \* DIR_Name          0
\* DIR_Name[0]: 0xE5 marks a deleted entry, so a name that starts with the character 0xE5 is stored with 0x05 there
NameOf(s)      == [i \in 1..11 |-> IF i = 1 /\ s[1] = 5 THEN 229 ELSE s[i]]        \* the name a slot stands for
StoredName(nm) == [i \in 1..11 |-> IF i = 1 /\ nm[1] = 229 THEN 5 ELSE nm[i]]      \* the bytes a name is stored as
SlotAttr(s)    == s[12]                     \* DIR_Attr          11
SlotCrtTime(s) == Le16(s, 14)               \* DIR_CrtTime       14
SlotCrtDate(s) == Le16(s, 16)               \* DIR_CrtDate       16
SlotClusHi(s)  == Le16(s, 20)               \* DIR_FstClusHI     20
SlotWrtTime(s) == Le16(s, 22)               \* DIR_WrtTime       22
SlotWrtDate(s) == Le16(s, 24)               \* DIR_WrtDate       24
SlotClusLo(s)  == Le16(s, 26)               \* DIR_FstClusLO     26
SlotSizeLo(s)  == Le16(s, 28)               \* DIR_FileSize      28 (two halves: TLC integers are 32-bit)
SlotSizeHi(s)  == Le16(s, 30)
=============================================================================
