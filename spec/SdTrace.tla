------------------------------ MODULE SdTrace ------------------------------
(***************************************************************************)
(* Trace validation for the SD/SPI driver.  The recorded bus events of the  *)
(* real SdCard driver talking to the simulated card are validated against   *)
(* SdCard.tla: the card's replies must be the specification's (so the       *)
(* simulator is itself checked), every host event must be legal (C14), and  *)
(* each driver call must deliver what the card's memory holds / store what  *)
(* it was given (C12) and turn every misbehaviour into an error within the  *)
(* traffic budget (C13).                                                    *)
(*   <<"VIOL", scenario, line, {<<property, tag, detail>>}>>                *)
(***************************************************************************)
EXTENDS SdCard, Json, IOUtils, TLC, SequencesExt
Min2(a, b) == IF a < b THEN a ELSE b

Rec == ndJsonDeserialize(IOEnv.TRACE)

VARIABLES
  l, sid,
  cfg,    \* [kind, crc, nblocks, cap, a41]
  c,      \* card state (SdCard)
  mem,    \* card memory: sparse function block -> payload id (absent: the default content -2-b)
  exp,    \* what the driver's caller must find stored: block -> payload id, -1 = unknown after a failed write
  call,   \* the driver call in flight, or NoCall
  seen,   \* what happened inside the call: set of strings
  needinit, \* the next driver call must begin with a reset (failed initialisation / mark_uninit)
  first,  \* no command has been sent yet inside this call
  alive,  \* the card responds
  stuck,  \* the card is busy for ever (until it is reset)
  dl,     \* data blocks the card delivered in this call, in order: "ok" | "crc" | "tok"
  nst,    \* blocks the card stored in this call
  c14,    \* a conversation violation has been reported for this call already
  lost,   \* the card ignored or refused a command in the middle of a transfer: no driver can know its state until it is reset
  viol

svars == <<l, sid, cfg, c, mem, exp, call, seen, needinit, first, alive, stuck, dl, nst, c14, lost, viol>>
NoCall == [op |-> "none"]
IsEv(k) == l <= Len(Rec) /\ Rec[l].ev = k
Num(p) == p[1] * 65536 + p[2]

DataStatus(d) == IF d.intact THEN "ok" ELSE IF d.misb \in {"flip", "burst"} THEN "crc" ELSE "tok"
\* one conversation report per call is enough (a desynchronised bus produces hundreds)
\* after an SPI bus failure inside the call the driver's attempts to terminate the transfer are
\* not judged (the aborted transaction already released the card)
C14Tags(tags) == IF c14 \/ lost \/ "spi" \in seen THEN {} ELSE tags

Report(tags) ==
  IF tags = {} THEN viol
  ELSE IF PrintT(<<"VIOL", sid, l, tags>>) THEN viol \cup {<<l, t[1], t[2]>> : t \in tags} ELSE viol

MemAt(m, b) == IF b \in DOMAIN m THEN m[b] ELSE -2 - b
Upd(m, b, v) == [x \in DOMAIN m \cup {b} |-> IF x = b THEN v ELSE m[x]]

SReset ==
  /\ IsEv("Reset")
  /\ LET e == Rec[l] IN
     /\ sid' = e.id
     /\ cfg' = [kind |-> e.kind, crc |-> e.crc, nblocks |-> e.nblocks, cap |-> (IF e.weird THEN 0 ELSE Num(e.cap)), capp |-> e.cap, a41 |-> e.acmd41, csd |-> e.csd, weird |-> e.weird, caprem |-> e.caprem, oor |-> e.oor, retries |-> e.retries]
     /\ c' = InitCard(e.acmd41)
     /\ viol' = Report(IF e.weird \/ CsdBlocks(e.csd) = Num(e.cap) THEN {} ELSE {<<"TOOL", "Simulator", "capacity of the generated CSD differs from SdCard.CsdBlocks">>})
  /\ mem' = <<>> /\ exp' = <<>> /\ call' = NoCall /\ seen' = {} /\ needinit' = TRUE /\ first' = TRUE /\ alive' = TRUE
  /\ stuck' = FALSE /\ dl' = <<>> /\ nst' = 0 /\ c14' = FALSE /\ lost' = FALSE
  /\ l' = l + 1

SCall ==
  /\ IsEv("Call") /\ call = NoCall
  \* (block numbers from 2^31 on are beyond every capacity: kept within TLC's integers)
  /\ call' = [op |-> Rec[l].op, blk |-> IF Rec[l].blk[1] >= 32768 THEN 2147418112 ELSE Num(Rec[l].blk), n |-> Rec[l].n, pay |-> Rec[l].pay, c0 |-> 0]
  /\ seen' = {} /\ first' = TRUE /\ dl' = <<>> /\ nst' = 0 /\ c14' = FALSE
  /\ l' = l + 1
  /\ UNCHANGED <<sid, cfg, c, mem, exp, needinit, alive, stuck, viol, lost>>

\* ---------------------------------------------------------------- command frame
SCmd ==
  /\ IsEv("Cmd")
  /\ LET e == Rec[l]
         legal == HostLegalWhy(c, cfg.kind, e)
         \* (a card may report that its read-ahead passed the end of the user area when a multi-block read is stopped)
         r1spec == IF cfg.oor /\ e.idx = 12 /\ c.mode = "RdMulti" /\ e.r1 = 64 THEN 64 ELSE CardR1(c, cfg.kind, cfg.nblocks, e)
         healthy == e.misb = "none"
         \* the state follows the reply the card actually gave
         r1 == IF e.misb = "silent" THEN -1 ELSE e.r1
         cn == IF e.misb \in {"silent", "r1err", "r1ill", "r1crc"} THEN [c EXCEPT !.app = FALSE, !.last = e.idx]
               ELSE CardNext(c, cfg.kind, cfg.nblocks, e, e.r1)
         dataBad == e.data.what # "none" /\ ~e.data.intact
         er == IF "erased" \in DOMAIN e THEN e.erased ELSE 0
         erSpec == IF healthy THEN PreErased(c, e, e.r1) ELSE er
         eb == ArgBlock(cfg.kind, e.ah, e.al)
         erasedBlocks == {b \in eb..(eb + er - 1) : b >= 0 /\ b < cfg.nblocks}
         simtags == IF healthy /\ (e.r1 # r1spec \/ e.extra # CardExtra(c, cfg.kind, e, e.r1) \/ e.delay > 8
                                   \/ (e.data.what # "none") # (e.r1 = 0 /\ ~e.acmd /\ e.idx \in {9, 17}) \/ er # erSpec)
                    THEN {<<"TOOL", "Simulator", "card reply differs from SdCard.tla for command " \o ToString(e.idx)>>} ELSE {}
     IN /\ c' = [cn EXCEPT !.ident = IdentNext(c, cfg.kind, e, r1)]
        /\ viol' = Report(C14Tags(IF legal = "ok" \/ ~alive THEN {} ELSE {<<"C14", "Conversation", legal \o " (command " \o ToString(e.idx) \o ")">>})
                     \cup (IF needinit /\ first /\ e.idx # 0 /\ call # NoCall
                           THEN {<<"C13", "Reinit", "a call after a failed initialisation / mark_uninit did not start with a reset">>} ELSE {})
                     \cup simtags)
        /\ seen' = seen \cup (IF healthy THEN {} ELSE {"misb"})
                        \cup (IF dataBad THEN {"corrupt"} ELSE {})
                        \cup (IF e.misb \in {"status", "status1"} THEN {"status"} ELSE {})
                        \cup (IF e.idx = 0 THEN {"reset"} ELSE {})
                        \cup (IF ~c.pw /\ e.idx # 0 THEN {"unpowered"} ELSE {})
                        \cup (IF ~e.acmd /\ e.idx = 25 /\ e.r1 = 0 /\ c.last = 123 /\ call # NoCall /\ call.op = "write" /\ c.pre # call.n THEN {"prewrong"} ELSE {})
        /\ needinit' = IF e.idx = 0 THEN FALSE ELSE needinit
        /\ mem' = [x \in DOMAIN mem \cup erasedBlocks |-> IF x \in erasedBlocks THEN -9 ELSE mem[x]]
        /\ c14' = (c14 \/ (legal # "ok" /\ alive))
        /\ dl' = IF e.data.what # "none" THEN Append(dl, DataStatus(e.data)) ELSE dl
        /\ stuck' = IF e.idx = 0 /\ e.r1 = 1 THEN FALSE ELSE stuck
        /\ lost' = IF e.idx = 0 /\ e.r1 = 1 THEN FALSE ELSE (lost \/ (e.misb \in {"silent", "r1err", "r1ill", "r1crc"} /\ c.mode # "Cmd"))
  /\ first' = FALSE
  /\ call' = IF call # NoCall /\ Rec[l].idx = 0 /\ ~Rec[l].acmd THEN [call EXCEPT !.c0 = @ + 1] ELSE call       \* resets sent inside this call
  /\ l' = l + 1
  /\ UNCHANGED <<sid, cfg, exp, alive, nst>>

SIdle ==
  /\ IsEv("Idle")
  /\ l' = l + 1
  /\ UNCHANGED <<sid, cfg, c, mem, exp, call, seen, needinit, first, alive, stuck, dl, nst, c14, lost, viol>>

SNextBlock ==
  /\ IsEv("NextBlock")
  /\ LET e == Rec[l] IN
     /\ seen' = seen \cup (IF e.data.intact THEN {} ELSE {"corrupt"}) \cup (IF e.data.misb = "none" THEN {} ELSE {"misb"})
     /\ viol' = Report(IF c.mode = "RdMulti" THEN {} ELSE {<<"TOOL", "Simulator", "block sent outside a multi-block read">>})
     /\ dl' = Append(dl, DataStatus(e.data))
  /\ l' = l + 1
  /\ UNCHANGED <<sid, cfg, c, mem, exp, call, needinit, first, alive, stuck, nst, c14, lost>>

\* ---------------------------------------------------------------- host -> card data
SWrBlock ==
  /\ IsEv("WrBlock")
  /\ LET e == Rec[l]
         inmode == c.mode \in {"WrSingle", "WrMulti"}
         tokok == (c.mode = "WrSingle" /\ e.token = 254) \/ (c.mode = "WrMulti" /\ e.token = 252)
         accSpec == tokok /\ (~c.crcon \/ e.crcok)
         accepted == e.resp % 32 = 5
         stored == accepted /\ c.cur >= 0 /\ c.cur < cfg.nblocks
         ctags == (IF ~inmode THEN {<<"C14", "Conversation", "data block sent although no write command is in progress">>} ELSE {})
          \cup (IF inmode /\ ~tokok THEN {<<"C14", "Conversation", "wrong start token for this write command">>} ELSE {})
          \cup (IF cfg.crc /\ ~e.crcok THEN {<<"C14", "Conversation", "data block with a wrong CRC-16 although CRC is enabled">>} ELSE {})
          \cup (IF e.hostbusy THEN {<<"C14", "Conversation", "data block sent while the card signals busy">>} ELSE {})
     IN /\ viol' = Report(C14Tags(ctags)
          \cup (IF e.misb = "none" /\ inmode /\ (accepted # accSpec \/ e.stored # stored \/ e.blk # c.cur)
                THEN {<<"TOOL", "Simulator", "data response differs from SdCard.tla">>} ELSE {}))
        /\ mem' = IF e.stored THEN Upd(mem, e.blk, e.pay) ELSE mem
        /\ c' = IF c.mode = "WrSingle" THEN [c EXCEPT !.mode = "Cmd"]
                ELSE IF c.mode = "WrMulti" /\ accepted THEN [c EXCEPT !.cur = c.cur + 1] ELSE c
        /\ seen' = seen \cup (IF accepted THEN {} ELSE {"rejected"}) \cup (IF e.misb = "none" THEN {} ELSE {"misb"})
                        \cup (IF e.busy = -1 THEN {"busyforever"} ELSE {})
        /\ c14' = (c14 \/ ctags # {})
        /\ nst' = IF e.stored THEN nst + 1 ELSE nst
        /\ stuck' = (stuck \/ e.busy = -1)
  /\ l' = l + 1
  /\ UNCHANGED <<sid, cfg, exp, call, needinit, first, alive, dl, lost>>

SStop ==
  /\ IsEv("Stop")
  /\ LET e == Rec[l] IN
     LET ctags == (IF c.mode = "WrMulti" THEN {} ELSE {<<"C14", "Conversation", "stop token outside a multi-block write">>})
               \cup (IF e.busy /\ ~stuck THEN {<<"C14", "Conversation", "stop token sent while the card signals busy">>} ELSE {})
     IN viol' = Report(C14Tags(ctags)) /\ c14' = (c14 \/ ctags # {})
  /\ c' = IF c.mode = "WrMulti" THEN [c EXCEPT !.mode = "Cmd"] ELSE c
  /\ l' = l + 1
  /\ UNCHANGED <<sid, cfg, mem, exp, call, seen, needinit, first, alive, stuck, dl, nst, lost>>

SJunk ==
  /\ IsEv("Junk")
  /\ viol' = Report(C14Tags(IF ~alive THEN {}
                             ELSE IF Rec[l].mode = "Overlap" THEN {<<"C14", "Conversation", "a command frame starts while the card is still sending (the rest of a data packet or a response)">>}
                             ELSE {<<"C14", "Conversation", "byte that is neither a clock byte, a command frame nor a token: " \o ToString(Rec[l].byte)>>}))
  /\ c14' = (c14 \/ alive)
  /\ l' = l + 1
  /\ UNCHANGED <<sid, cfg, c, mem, exp, call, seen, needinit, first, alive, stuck, dl, nst, lost>>

SEnv ==
  /\ (IsEv("SpiError") \/ IsEv("Dead") \/ IsEv("Ctl"))
  /\ LET e == Rec[l] IN
     /\ seen' = seen \cup {IF e.ev = "SpiError" THEN "spi" ELSE "dead"}
     /\ alive' = IF e.ev = "Dead" THEN FALSE ELSE IF e.ev = "Ctl" /\ e.what = "revive" THEN TRUE ELSE alive
     /\ c' = IF e.ev = "Dead" \/ (e.ev = "Ctl" /\ e.what = "revive") THEN InitCard(cfg.a41)
             ELSE IF e.ev = "SpiError" THEN [c EXCEPT !.mode = "Cmd", !.app = FALSE, !.last = -1]   \* the aborted transaction releases the card
             ELSE c
     /\ stuck' = IF e.ev = "SpiError" THEN stuck ELSE FALSE
     /\ lost' = IF e.ev = "SpiError" THEN lost ELSE FALSE
  /\ l' = l + 1
  /\ UNCHANGED <<sid, cfg, mem, exp, call, needinit, first, dl, nst, c14, viol>>

\* ---------------------------------------------------------------- Return
Faulty == seen \cap {"misb", "spi", "dead", "rejected", "status", "busyforever", "unpowered"} # {} \/ ~alive \/ stuck \/ lost
         \/ cfg.a41 > 1000     \* more ACMD41 rounds than the driver's time-out allows: not a legal timing
         \/ "corrupt" \in seen
RegOps == {"num_blocks", "num_bytes", "erase_en"}     \* the calls that read the CSD register
Corrupt == "corrupt" \in seen

SRet ==
  /\ IsEv("Ret") /\ call # NoCall
  /\ LET e == Rec[l]
         ok == e.k = "ok"
         blocks == [i \in 1..call.n |-> call.blk + (i - 1)]
         dataop == call.op \in {"read", "write"}
     IN
     /\ viol' = Report(
            (IF e.k = "panic" THEN {<<"C13", "Panic", call.op \o ": " \o e.e>>} ELSE {})
       \cup (IF e.over THEN {<<"C13", "Hang", call.op \o " exceeded the SPI traffic budget">>} ELSE {})
       \* C12: on a healthy card with legal timing every call succeeds and is exact
       \cup (IF e.k = "panic" /\ ~Faulty THEN {<<"C12", "Result", call.op \o " panicked on a healthy card: " \o e.e>>} ELSE {})
       \cup (IF ~ok /\ e.k # "panic" /\ ~e.over /\ ~Faulty /\ call.op # "mark_uninit" /\ ~(dataop /\ (call.blk + call.n > cfg.nblocks \/ call.blk >= cfg.nblocks))
             THEN {<<"C12", "Result", call.op \o " failed on a healthy card: " \o e.e>>} ELSE {})
       \cup (IF ok /\ call.op = "read" /\ e.pay # [i \in 1..call.n |-> MemAt(exp, blocks[i])]
                /\ ~\E i \in 1..call.n : MemAt(exp, blocks[i]) = -1
             THEN (IF Corrupt \/ seen \cap {"dead", "spi"} # {}
                   \* (a line stuck low behind the start token gives an all-zero block with the check bytes 0x0000 - a valid
                   \*  CRC-16 code word: not a corruption the CRC can detect)
                   THEN (IF cfg.crc /\ ~("dead" \in seen /\ "zeros" \in DOMAIN e
                                          /\ \A i \in 1..call.n : e.pay[i] # MemAt(exp, blocks[i]) => e.zeros[i]) THEN {<<"C13", "CorruptAccepted", "damaged data returned as good although CRC is enabled">>} ELSE {})
                   ELSE {<<"C12", "ReadData", "read returned other blocks than the card stores at that address">>})
             ELSE {})
       \* (bytes: exactly what the register encodes; blocks: the whole 512-byte blocks of that, at most 2^32 - 1)
       \cup (IF ok /\ call.op \in {"num_blocks", "num_bytes"} /\ ~Corrupt
                /\ (IF call.op = "num_bytes" THEN e.val # cfg.capp \/ e.rem # cfg.caprem
                    ELSE e.rem # 0 \/ e.val # (IF cfg.capp[1] >= 65536 THEN <<65535, 65535>> ELSE cfg.capp))
             THEN {<<"C12", "Capacity", "reported capacity differs from the CSD register's (structure version " \o ToString(cfg.csd.ver) \o ")">>} ELSE {})
       \* (beyond the listed properties: the other field of the register the driver exposes)
       \cup (IF ok /\ call.op = "erase_en" /\ ~Corrupt /\ e.val # <<0, cfg.csd.erase>>
             THEN {<<"SPEC", "Register", "erase_single_block_enabled differs from bit 46 of the CSD register">>} ELSE {})
       \cup (IF ok /\ call.op = "card_type" /\ e.e # cfg.kind THEN {<<"C12", "CardKind", "identified " \o e.e \o " for a " \o cfg.kind \o " card">>} ELSE {})
       \cup (IF ok /\ dataop /\ call.blk >= cfg.nblocks /\ ~Faulty
             THEN {<<"C12", "OutOfRange", call.op \o " beyond the card's capacity reported success">>} ELSE {})
       \cup (IF call.op = "write" /\ "prewrong" \in seen
             THEN {<<"C12", "PreErase", "the block count announced to the card (ACMD23) is not the number of blocks of the write">>} ELSE {})
       \* C13: what must be an error
       \cup (IF ok /\ cfg.crc /\ call.op \in {"read"} \cup RegOps /\ \E i \in 1..Min2(call.n, Len(dl)) : dl[i] = "crc"
             THEN {<<"C13", "CorruptAccepted", "corrupted data returned as good although CRC is enabled">>} ELSE {})
       \cup (IF ok /\ call.op \in {"read"} \cup RegOps /\ \E i \in 1..Min2(call.n, Len(dl)) : dl[i] = "tok"
             THEN {<<"C13", "TokenAccepted", "call reported success although an unexpected token came instead of data">>} ELSE {})
       \cup (IF ok /\ call.op \in {"read"} \cup RegOps /\ Len(dl) < call.n
             THEN {<<"C13", "NoData", "call reported success although the card did not deliver the data">>} ELSE {})
       \cup (IF ok /\ call.op = "write" /\ nst < call.n
             THEN {<<"C13", "NotStored", "write reported success although the card did not store every block">>} ELSE {})
       \cup (IF ok /\ call.op = "write" /\ seen \cap {"rejected", "busyforever"} # {}
             THEN {<<"C13", "RejectAccepted", "write reported success although the card did not accept a block">>} ELSE {})
       \cup (IF ok /\ call.op = "write" /\ call.n = 1 /\ "status" \in seen
             THEN {<<"C13", "StatusIgnored", "single-block write reported success although the status reports a failure">>} ELSE {})
       \* the retry budget of the reset belongs to each initialisation: giving up on a live card before it is used up is not allowed
       \cup (IF ~ok /\ e.k = "err" /\ e.e = "CardNotFound" /\ alive /\ ~stuck /\ seen \cap {"spi", "dead", "unpowered"} = {} /\ call.c0 <= cfg.retries
             THEN {<<"C13", "Reinit", "initialisation gave up after " \o ToString(call.c0) \o " reset(s) although " \o ToString(cfg.retries) \o " retries are configured">>} ELSE {})
       \cup (IF ok /\ "spi" \in seen THEN {<<"C13", "SpiIgnored", "call reported success although the SPI bus failed">>} ELSE {}))
     /\ exp' = IF call.op = "write"
               THEN (IF ok THEN [x \in DOMAIN exp \cup {blocks[i] : i \in 1..call.n} |->
                                   IF \E i \in 1..call.n : blocks[i] = x THEN call.pay[CHOOSE i \in 1..call.n : blocks[i] = x] ELSE exp[x]]
                     ELSE [x \in DOMAIN exp \cup {blocks[i] : i \in 1..call.n} |->
                                   IF \E i \in 1..call.n : blocks[i] = x THEN -1 ELSE exp[x]])
               ELSE exp
     \* a failed initialisation leaves the card marked uninitialised; so does mark_uninit
     /\ needinit' = IF call.op = "mark_uninit" THEN TRUE
                    ELSE IF ~ok /\ "reset" \in seen /\ ~(c.ident = "done" \/ (c.ident = "rdy" /\ cfg.kind = "sd1")) THEN TRUE
                    ELSE needinit
  /\ call' = NoCall /\ seen' = {}
  /\ l' = l + 1
  /\ UNCHANGED <<sid, cfg, c, mem, first, alive, stuck, dl, nst, c14, lost>>

\* at the end the card's memory must be what the successful writes stored, and nothing else
SEnd ==
  /\ IsEv("End")
  /\ viol' = Report(IF \A b \in DOMAIN mem \cup DOMAIN exp : MemAt(exp, b) = -1 \/ MemAt(exp, b) = MemAt(mem, b) THEN {}
                    ELSE {<<"C12", "WriteData", "the card's memory differs from what the successful writes stored">>})
  /\ l' = l + 1
  /\ UNCHANGED <<sid, cfg, c, mem, exp, call, seen, needinit, first, alive, stuck, dl, nst, c14, lost>>

SDone ==
  /\ l = Len(Rec) + 1
  /\ PrintT(<<"DONE", Len(Rec), Cardinality(viol)>>)
  /\ UNCHANGED svars

SInit == /\ l = 1 /\ sid = "" /\ cfg = <<>> /\ c = InitCard(0) /\ mem = <<>> /\ exp = <<>> /\ call = NoCall /\ seen = {}
         /\ needinit = TRUE /\ first = TRUE /\ alive = TRUE /\ stuck = FALSE /\ dl = <<>> /\ nst = 0 /\ c14 = FALSE /\ lost = FALSE /\ viol = {}
SNext == SReset \/ SCall \/ SCmd \/ SIdle \/ SNextBlock \/ SWrBlock \/ SStop \/ SJunk \/ SEnv \/ SRet \/ SEnd \/ SDone
SSpec == SInit /\ [][SNext]_svars
Post == PrintT(<<"DEPTH", TLCGet("stats").diameter, Len(Rec)>>)
=============================================================================
