------------------------------ MODULE MCSdSim ------------------------------
(***************************************************************************)
(* Behaviours of the driver model (SdHost) for replay on the real driver:   *)
(* TLC -simulate prints the log of every completed behaviour - the calls,   *)
(* every bus primitive with the card's misbehaviour at that point, and the  *)
(* result the model's driver returns.  So that the misbehaviours are spread *)
(* over the whole behaviour (a uniformly random walk would spend them on    *)
(* the first commands), each behaviour draws at its start the positions at  *)
(* which the card may misbehave.                                            *)
(***************************************************************************)
EXTENDS SdHost, Json
CONSTANT ArmMax
VARIABLE arm
SimInit == Init /\ arm \in {{a, b} : a \in 1..ArmMax, b \in 1..ArmMax}
SimNext == Next /\ UNCHANGED arm /\ (faults' < faults => Len(log) \in arm)
TourDone == (h.pc = "idle" /\ h.nops = MaxOps) => PrintT(<<"TOUR", ToJson([a41 |-> card.a41need, log |-> log])>>)
=============================================================================
