----------------------------- MODULE MCCacheInd -----------------------------
(* Apalache: IndInv of BlockCache is inductive - Init => IndInv (length 0) and IndInv /\ Next => IndInv' (length 1,
   starting from ANY state that satisfies IndInv, not only the reachable ones).
     apalache-mc check --cinit=ConstInit --init=Init    --inv=IndInv --length=0 MCCacheInd.tla
     apalache-mc check --cinit=ConstInit --init=IndInit --inv=IndInv --length=1 MCCacheInd.tla *)
EXTENDS BlockCache
ConstInit == /\ Blocks = {1, 2, 3} /\ Vals = {7, 8, 9}
             /\ BugKeepOnWriteFail = FALSE /\ BugTagBeforeRead = FALSE /\ BugKeepTagOnReadFail = FALSE
\* any state satisfying the invariant (values drawn from a small universe so that the solver has finite domains)
U == {-1, 0, 1, 2, 3, 7, 8, 9}
IndInit == /\ dev \in [Blocks -> U] /\ buf \in U /\ tag \in Blocks \cup {None} /\ pend \in BOOLEAN
           /\ intent \in [Blocks -> SUBSET U]
           /\ ret \in [k : {"none", "ok", "err", "panic"}, val : U]
           /\ IndInv
=============================================================================
