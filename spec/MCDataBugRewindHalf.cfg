SPECIFICATION Spec
CONSTANTS
  BL = 2
  BPC = 2
  NC = 4
  MaxLen = 10
  MaxOps = 5
  BugRewindHalf = TRUE
  BugLateCursor = FALSE
  BugStepInCluster = FALSE
VIEW view
INVARIANTS ReadExact ChainHoldsFile NoAssert OnlyDiskFull CursorSane CursorOnChain
CHECK_DEADLOCK FALSE
