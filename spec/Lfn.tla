-------------------------------- MODULE Lfn --------------------------------
(***************************************************************************)
(* Long-file-name decoding (C17).                                           *)
(*  - a fragment carries 13 UTF-16 code units; the name ends at the first   *)
(*    0x0000 unit of a fragment (the rest is 0xFFFF padding);               *)
(*  - fragments are stored (and pushed into the buffer) last-first, the     *)
(*    name is their concatenation in name order;                            *)
(*  - the text is the lossy decoding: a surrogate pair is one scalar, an    *)
(*    unpaired surrogate is U+FFFD;                                         *)
(*  - a name buffer of `size` bytes holds the text iff its UTF-8 encoding   *)
(*    fits, otherwise the result is empty.                                  *)
(* And the acceptor for fragment runs inside a directory (LfnFor).          *)
(***************************************************************************)
EXTENDS Integers, Sequences, SequencesExt

IsHigh(u) == u >= 55296 /\ u <= 56319       \* D800..DBFF
IsLow(u)  == u >= 56320 /\ u <= 57343       \* DC00..DFFF
Replacement == 65533

CutAtNull(frag) ==
  IF \E i \in 1..Len(frag) : frag[i] = 0
  THEN SubSeq(frag, 1, (CHOOSE i \in 1..Len(frag) : frag[i] = 0 /\ \A j \in 1..(i - 1) : frag[j] # 0) - 1)
  ELSE frag

\* fragments in push (= on-disk) order -> code units in name order
RECURSIVE NameUnits(_, _)
NameUnits(frags, i) == IF i = 0 THEN <<>> ELSE CutAtNull(frags[i]) \o NameUnits(frags, i - 1)
JoinedName(frags) == NameUnits(frags, Len(frags))

\* lossy UTF-16 decoding, iterative (a left fold carrying the pending high surrogate, 0 = none)
LossyStep(acc, u) ==   \* acc = <<scalars, pendingHigh>>
  LET out == acc[1]  pend == acc[2] IN
  IF pend # 0 /\ IsLow(u) THEN <<Append(out, 65536 + (pend - 55296) * 1024 + (u - 56320)), 0>>
  ELSE LET flushed == IF pend # 0 THEN Append(out, Replacement) ELSE out IN
       IF IsHigh(u) THEN <<flushed, u>>
       ELSE IF IsLow(u) THEN <<Append(flushed, Replacement), 0>>
       ELSE <<Append(flushed, u), 0>>
Lossy(units) == LET r == FoldLeft(LossyStep, <<<<>>, 0>>, units) IN IF r[2] # 0 THEN Append(r[1], Replacement) ELSE r[1]

Utf8Len(s) == IF s < 128 THEN 1 ELSE IF s < 2048 THEN 2 ELSE IF s < 65536 THEN 3 ELSE 4
TextLen(scalars) == FoldLeft(LAMBDA a, s : a + Utf8Len(s), 0, scalars)

\* what a buffer of `size` bytes must show after the fragments were pushed
BufferText(frags, size) == LET t == Lossy(JoinedName(frags)) IN IF TextLen(t) <= size THEN t ELSE <<>>

\* ------------------------------------------------------------------ runs inside a directory
\* slots: the slots of a directory before its end marker, as [sl |-> [k, q, cs, u, ck, ...]]
\* k: index of a live short entry.  Result: [ok, frags] - is there a complete, correctly ordered
\* run directly in front of it whose checksum matches, and its fragments in on-disk order
IsStart(sl) == (sl.q \div 64) % 2 = 1
SeqNo(sl) == sl.q % 32
RunStart(slots, k) ==   \* index of the last start-flagged fragment of the unbroken fragment block in front of k, 0 if none
  LET blockLo == IF \E j \in 1..(k - 1) : slots[j].sl.k # "lfn"
                 THEN (CHOOSE j \in 1..(k - 1) : slots[j].sl.k # "lfn" /\ \A m \in (j + 1)..(k - 1) : slots[m].sl.k = "lfn") + 1
                 ELSE 1
      starts == {j \in blockLo..(k - 1) : IsStart(slots[j].sl)}
  IN IF starts = {} THEN 0 ELSE CHOOSE j \in starts : \A m \in starts : m <= j
LfnFor(slots, k) ==
  LET s == RunStart(slots, k) IN
  IF s = 0 THEN [ok |-> FALSE, mixed |-> FALSE, frags |-> <<>>]
  ELSE LET ordered == \A i \in s..(k - 1) : SeqNo(slots[i].sl) = k - i
           sums == {slots[i].sl.cs : i \in s..(k - 1)}
       IN [ok |-> ordered /\ sums = {slots[k].sl.ck},
           mixed |-> ordered /\ sums # {slots[k].sl.ck} /\ slots[s].sl.cs = slots[k].sl.ck,   \* fragments disagree among themselves: don't-care
           frags |-> [i \in 1..(k - s) |-> slots[s + i - 1].sl.u]]
=============================================================================
