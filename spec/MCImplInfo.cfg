SPECIFICATION MCSpec
CONSTANTS CntChoices <- CntAll
          N = 4  EPS = 4  NF = 1  ROOT16 = FALSE  RS = 2  SPC = 2  Names = {"a", "b"}  MaxLen = 2  MaxOpen = 1
          BugF1 = FALSE BugF2 = FALSE BugF3 = FALSE BugF9 = FALSE BugF18 = FALSE BugF15 = FALSE InfoModel = TRUE
          HintChoices = {0, 3, 5, 2, 11}
INVARIANTS CrashSafe Durable WellFormed SpaceExact NoInvented FatCopiesEqual HintInRange CountTracks CountExact NoMissedAllocation RecordWritten
VIEW MCView
CHECK_DEADLOCK FALSE
