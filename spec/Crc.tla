-------------------------------- MODULE Crc --------------------------------
(***************************************************************************)
(* CRC-7 (x^7+x^3+1) and CRC-16 (x^16+x^12+x^5+1, initial value 0) of the   *)
(* SD specification as bit-serial linear feedback shift registers.          *)
(* Messages are sequences of bytes (0..255), most significant bit first.    *)
(***************************************************************************)
EXTENDS Integers, Sequences, Bitwise, SequencesExt

\* one bit into the 16-bit register: shift left, feed back the polynomial when the bit that
\* falls out differs from the message bit
Bit16(reg, bit) == LET top == (reg \div 32768) % 2
                       sh == (reg * 2) % 65536
                   IN IF top # bit THEN sh ^^ 4129 ELSE sh          \* 0x1021
Bit7(reg, bit) ==  LET top == (reg \div 64) % 2
                       sh == (reg * 2) % 128
                   IN IF top # bit THEN sh ^^ 9 ELSE sh             \* 0x09

BitOf(byte, i) == (byte \div (2 ^ i)) % 2
Byte16(reg, byte) ==
  Bit16(Bit16(Bit16(Bit16(Bit16(Bit16(Bit16(Bit16(reg, BitOf(byte, 7)), BitOf(byte, 6)), BitOf(byte, 5)), BitOf(byte, 4)),
        BitOf(byte, 3)), BitOf(byte, 2)), BitOf(byte, 1)), BitOf(byte, 0))
Byte7(reg, byte) ==
  Bit7(Bit7(Bit7(Bit7(Bit7(Bit7(Bit7(Bit7(reg, BitOf(byte, 7)), BitOf(byte, 6)), BitOf(byte, 5)), BitOf(byte, 4)),
        BitOf(byte, 3)), BitOf(byte, 2)), BitOf(byte, 1)), BitOf(byte, 0))

Rem16(msg) == FoldLeft(Byte16, 0, msg)                \* remainder of msg * x^16 modulo the polynomial
Rem7(msg)  == FoldLeft(Byte7, 0, msg)
Crc16(msg) == Rem16(msg)                              \* the data checksum
Crc7(msg)  == Rem7(msg) * 2 + 1                       \* the command checksum byte: remainder shifted left, end bit set
=============================================================================
