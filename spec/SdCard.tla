------------------------------- MODULE SdCard -------------------------------
(***************************************************************************)
(* The SD card in SPI mode as the SD Physical Layer specification describes *)
(* it, reduced to what a host driver can observe, at the granularity of bus *)
(* events: a command frame, a run of clock bytes, a data block in either    *)
(* direction, the stop token.  Two things are specified:                    *)
(*   - the card: its reply to every event in every state (CardR1, extra     *)
(*     bytes, data, memory update) -- the simulated card of the harness is  *)
(*     validated against it event by event;                                 *)
(*   - the legal conversation (C14): which host events are legal in which   *)
(*     card state (HostLegalWhy).                                           *)
(* The card's nondeterminism (response delay 0..8, token delay, busy        *)
(* length, number of ACMD41 rounds, and the misbehaviours of C13) appears   *)
(* as fields of the events.                                                 *)
(***************************************************************************)
EXTENDS Integers, Sequences, FiniteSets

\* card state record: [pw, idle, ready, v2ok, crcon, app, mode, a41, cur, ident, needinit, wrdone]
\*   mode  \in {"Cmd","RdMulti","WrSingle","WrMulti"}
\*   ident \in {"none","c0","c8","rdy","done"}   progress of the identification sequence
InitCard(a41) == [pw |-> FALSE, idle |-> FALSE, ready |-> FALSE, v2ok |-> FALSE, crcon |-> FALSE, app |-> FALSE,
                  mode |-> "Cmd", a41 |-> a41, a41need |-> a41, cur |-> 0, ident |-> "none", last |-> -1, pre |-> 0]

IdleBit(c) == IF c.idle THEN 1 ELSE 0

\* block number addressed by a command argument given as two 16-bit halves; -1 = misaligned
\* (block numbers from 2^31 on are beyond every capacity modelled here; -1 keeps the arithmetic within TLC's integers)
ArgBlock(kind, ah, al) == IF kind = "sdhc" THEN (IF ah >= 32768 THEN -1 ELSE ah * 65536 + al)
                          ELSE IF al % 512 = 0 THEN ah * 128 + al \div 512 ELSE -1

CanLeaveIdle(c, kind, ah) ==
  CASE kind = "sd1" -> TRUE
    [] kind = "sd2" -> c.v2ok
    [] OTHER -> c.v2ok /\ (ah \div 16384) % 2 = 1      \* HCS bit (bit 30)

\* the R1 byte a healthy card answers with
CardR1(c, kind, nblocks, e) ==
  LET needcrc == c.crcon \/ e.idx \in {0, 8}
      b == ArgBlock(kind, e.ah, e.al)
  IN IF e.idx = 12 /\ c.mode = "RdMulti" THEN 0
     ELSE IF needcrc /\ ~(e.crcok /\ e.endbit) THEN 8 + IdleBit(c)
     ELSE IF ~c.pw /\ e.idx # 0 THEN 4 + IdleBit(c)
     ELSE CASE e.idx = 0 -> 1
            [] ~e.acmd /\ e.idx = 59 -> IdleBit(c)
            [] ~e.acmd /\ e.idx = 8 -> IF kind = "sd1" THEN 4 + IdleBit(c) ELSE IdleBit(c)
            [] ~e.acmd /\ e.idx = 55 -> IdleBit(c)
            [] e.acmd /\ e.idx = 41 -> IF ~c.idle THEN 0 ELSE IF CanLeaveIdle(c, kind, e.ah) /\ c.a41 = 0 THEN 0 ELSE 1
            [] ~e.acmd /\ e.idx = 58 -> IdleBit(c)
            [] ~e.acmd /\ e.idx \in {9, 13} /\ c.ready -> 0
            [] ~e.acmd /\ e.idx \in {17, 18, 24, 25} /\ c.ready -> IF b >= 0 /\ b < nblocks THEN 0 ELSE 64
            [] e.acmd /\ e.idx = 23 /\ c.ready -> 0
            [] OTHER -> 4 + IdleBit(c)

\* the card's next state after a command it answered with r1 (healthy reply)
CardNext(c, kind, nblocks, e, r1) ==
  LET b == ArgBlock(kind, e.ah, e.al)
      base == [c EXCEPT !.app = FALSE, !.last = IF e.acmd /\ e.idx = 23 /\ r1 = 0 THEN 123 ELSE e.idx]
      okcmd == r1 \in {0, 1}
  IN IF e.idx = 12 /\ c.mode = "RdMulti" THEN [base EXCEPT !.mode = "Cmd"]
     ELSE IF ~okcmd THEN base
     ELSE CASE e.idx = 0 -> [base EXCEPT !.pw = TRUE, !.idle = TRUE, !.ready = FALSE, !.v2ok = FALSE, !.crcon = FALSE,
                                        !.mode = "Cmd", !.a41 = c.a41need]
            [] ~e.acmd /\ e.idx = 59 -> [base EXCEPT !.crcon = (e.al % 2 = 1)]
            [] ~e.acmd /\ e.idx = 8 -> [base EXCEPT !.v2ok = TRUE]
            [] ~e.acmd /\ e.idx = 55 -> [base EXCEPT !.app = TRUE]
            [] e.acmd /\ e.idx = 41 -> IF r1 = 0 THEN [base EXCEPT !.idle = FALSE, !.ready = TRUE]
                                        ELSE [base EXCEPT !.a41 = IF c.a41 > 0 THEN c.a41 - 1 ELSE 0]
            [] ~e.acmd /\ e.idx = 18 /\ c.ready -> [base EXCEPT !.mode = "RdMulti", !.cur = b]
            [] ~e.acmd /\ e.idx = 17 /\ c.ready -> [base EXCEPT !.cur = b]
            [] ~e.acmd /\ e.idx = 24 /\ c.ready -> [base EXCEPT !.mode = "WrSingle", !.cur = b]
            [] ~e.acmd /\ e.idx = 25 /\ c.ready -> [base EXCEPT !.mode = "WrMulti", !.cur = b]
            [] e.acmd /\ e.idx = 23 /\ c.ready -> [base EXCEPT !.pre = (e.ah % 128) * 65536 + e.al]     \* SET_WR_BLK_ERASE_COUNT (23 bits)
            [] OTHER -> base
\* a failed (illegal / crc) ACMD41 still counts down in the simulator only when idle; keep the spec simple:
\* the count-down happens exactly when the reply is 1 to a well-formed ACMD41.

\* extra response bytes (R3 / R7 / R2)
CardExtra(c, kind, e, r1) ==
  IF r1 \notin {0, 1} THEN <<>>
  ELSE CASE ~e.acmd /\ e.idx = 8 /\ kind # "sd1" -> <<0, 0, (e.al \div 256) % 16, e.al % 256>>
         [] ~e.acmd /\ e.idx = 58 /\ c.pw -> <<IF kind = "sdhc" /\ c.ready THEN 192 ELSE IF c.ready THEN 128 ELSE 0, 255, 128, 0>>
         [] ~e.acmd /\ e.idx = 13 /\ c.ready -> <<0>>
         [] OTHER -> <<>>

\* ------------------------------------------------------------------ C14: the legal conversation
DataCmds == {17, 18, 24, 25}
\* why a command frame is not legal here ("ok" if it is)
HostLegalWhy(c, kind, e) ==
  IF ~(e.crcok /\ e.endbit) THEN "malformed frame (crc7 / end bit)"
  ELSE IF e.busy /\ e.idx \notin {0, 12} THEN "command sent while the card signals busy"
  ELSE IF e.idx = 0 THEN "ok"
  ELSE IF c.mode = "RdMulti" THEN (IF e.idx = 12 THEN "ok" ELSE "only stop-transmission may interrupt a multi-block read")
  ELSE IF c.mode = "WrMulti" /\ ~e.acmd /\ e.idx = 12 THEN "ok"   \* aborting a multi-block write after a rejected block
  ELSE IF c.mode \in {"WrSingle", "WrMulti"} THEN "command sent while the card waits for a data block"
  ELSE IF e.idx \in {41, 23} /\ c.last # 55 THEN "application command without the CMD55 prefix"
  ELSE IF e.idx \in {41, 23} /\ ~e.acmd THEN "ok"    \* the prefix was sent; that the card did not take it is the card's fault
  ELSE IF c.last = 123 /\ ~(~e.acmd /\ e.idx = 25) THEN "ACMD23 must directly precede CMD25"
  ELSE IF ~c.pw THEN "command before reset (CMD0)"
  ELSE IF e.acmd /\ e.idx = 41 THEN (IF c.ident \in {"c8", "rdy"} \/ ~c.idle THEN "ok" ELSE "ACMD41 before CMD8")
  ELSE IF ~e.acmd /\ e.idx = 8 THEN (IF c.ident \in {"c0", "c8"} THEN "ok" ELSE "CMD8 out of order")
  ELSE IF ~e.acmd /\ e.idx = 59 THEN "ok"
  ELSE IF ~e.acmd /\ e.idx = 55 THEN "ok"
  ELSE IF ~e.acmd /\ e.idx = 58 THEN (IF c.ident \in {"rdy", "done"} THEN "ok" ELSE "CMD58 before the card is ready")
  ELSE IF ~e.acmd /\ e.idx = 12 THEN "stop-transmission outside a multi-block read"
  ELSE IF (~e.acmd /\ e.idx \in DataCmds \cup {9, 13}) \/ (e.acmd /\ e.idx = 23)
       THEN (IF c.ident = "done" \/ (c.ident = "rdy" /\ kind = "sd1") THEN "ok" ELSE "data command before identification completed")
  ELSE "command the card does not know in SPI mode"

IdentNext(c, kind, e, r1) ==
  IF e.idx = 0 /\ r1 = 1 THEN "c0"
  ELSE IF ~e.acmd /\ e.idx = 8 /\ c.ident = "c0" /\ r1 \in {1, 5} THEN "c8"
  ELSE IF e.acmd /\ e.idx = 41 /\ c.ident = "c8" /\ r1 = 0 THEN "rdy"
  ELSE IF ~e.acmd /\ e.idx = 58 /\ c.ident = "rdy" /\ r1 = 0 THEN "done"
  ELSE c.ident

\* capacity in 512-byte blocks encoded by a CSD register, by its own structure version
\* version 1.0: (C_SIZE+1) * 2^(C_SIZE_MULT+2) * 2^READ_BL_LEN bytes; version 2.0: (C_SIZE+1) * 512 KiB
\* blocks a multi-block write command erases before the first data block arrives: the count announced by a directly
\* preceding ACMD23 (the simulated card erases at most 64, which is more than any transfer of the scenarios)
PreErased(c, e, r1) == IF ~e.acmd /\ e.idx = 25 /\ r1 = 0 /\ c.last = 123 THEN (IF c.pre < 64 THEN c.pre ELSE 64) ELSE 0

CsdBlocks(csd) == IF csd.ver = 0 THEN (csd.c_size + 1) * (2 ^ (csd.mult + csd.bl - 7))
                  ELSE (csd.c_size + 1) * 1024
=============================================================================
