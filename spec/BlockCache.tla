----------------------------- MODULE BlockCache -----------------------------
(***************************************************************************)
(* The single-block cache every file-system access goes through             *)
(* (src/blockdevice.rs, BlockCache): read, read_mut + modification,         *)
(* blank_mut, write_back, write_back_with_duplicate, over a device whose    *)
(* calls can fail - a failing read may have filled part of the buffer.      *)
(* One specification, two uses: TLC explores it exhaustively (MCCache.cfg), *)
(* and CacheTrace binds every recorded step of the real BlockCache to one   *)
(* of its actions.                                                          *)
(*   Coherent      what the cache holds under a block number is what the    *)
(*                 device holds there, unless the caller has a modification *)
(*                 pending (C11: a failed device call is not papered over   *)
(*                 with contents the device never had)                      *)
(*   OnlyIntended  the device only ever holds, in each block, a value the   *)
(*                 caller meant for that block (C04: nothing else is        *)
(*                 written back)                                            *)
(* The Bug* constants are the three slips the seeded changes / the repaired *)
(* defect F23 made in this code; each makes TLC report a violation.         *)
(***************************************************************************)
EXTENDS Integers, FiniteSets

CONSTANTS
  \* @type: Set(Int);
  Blocks,
  \* @type: Set(Int);
  Vals,
  \* @type: Bool;
  BugKeepOnWriteFail,    \* F23: the block stays cached although its write failed
  \* @type: Bool;
  BugTagBeforeRead,      \* C11-b: the cache is tagged with the new number before the device read
  \* @type: Bool;
  BugKeepTagOnReadFail   \* C04-d: the old tag survives a failed read that filled part of the buffer

None == 0                        \* block numbers are positive
Mix == -1                        \* a buffer partly overwritten by a failed read
Blank == 0

VARIABLES
  \* @type: Int -> Int;
  dev,     \* [Blocks -> value]
  \* @type: Int;
  buf,     \* the cached block's contents
  \* @type: Int;
  tag,     \* the block number they are cached under, or None
  \* @type: Bool;
  pend,    \* the caller changed the buffer and has not written it back
  \* @type: Int -> Set(Int);
  intent,  \* [Blocks -> set of values the caller ever meant for the block] (history variable)
  \* @type: { k: Str, val: Int };
  ret      \* result of the last call: [k, val]
vars == <<dev, buf, tag, pend, intent, ret>>

Init == /\ dev = [b \in Blocks |-> b] /\ buf = Blank /\ tag = None /\ pend = FALSE
        /\ intent = [b \in Blocks |-> {b}] /\ ret = [k |-> "none", val |-> 0]

\* the device read that fills the cache for block b: succeeds, or fails having touched nothing or half of the buffer
Fill(b, fail, partial) ==
  IF ~fail THEN /\ buf' = dev[b] /\ tag' = b /\ pend' = FALSE
  ELSE /\ buf' = IF partial /\ buf # dev[b] THEN Mix ELSE buf
       /\ tag' = IF BugTagBeforeRead THEN b ELSE IF BugKeepTagOnReadFail THEN tag ELSE None
       /\ pend' = IF BugKeepTagOnReadFail THEN pend ELSE FALSE

\* read(b) / read_mut(b): served from the cache when the tag matches
Read(b, fail, partial, mut) ==
  /\ IF tag = b
     THEN /\ UNCHANGED <<buf, tag, pend>>
          /\ ret' = [k |-> "ok", val |-> buf]
     ELSE /\ Fill(b, fail, partial)
          /\ ret' = IF fail THEN [k |-> "err", val |-> 0] ELSE [k |-> "ok", val |-> dev[b]]
  /\ UNCHANGED <<dev, intent>>

\* the caller changes the block it got from read_mut / blank_mut (only right after a successful one)
Modify(v) ==
  /\ tag # None /\ ret.k = "ok"
  \* (callers change a part of the block: a buffer that is a mixture of two blocks stays one)
  /\ buf' = (IF buf = Mix THEN Mix ELSE v) /\ pend' = TRUE /\ intent' = [intent EXCEPT ![tag] = @ \cup {v}]
  /\ ret' = [k |-> "ok", val |-> v]
  /\ UNCHANGED <<dev, tag>>

BlankMut(b) ==
  /\ tag' = b /\ buf' = Blank /\ pend' = TRUE /\ intent' = [intent EXCEPT ![b] = @ \cup {Blank}]
  /\ ret' = [k |-> "ok", val |-> Blank]
  /\ UNCHANGED dev

\* write_back(): without a cached block the code panics ("write_back with no read"); callers never do that
WriteBack(fail) ==
  IF tag = None THEN /\ ret' = [k |-> "panic", val |-> 0] /\ UNCHANGED <<dev, buf, tag, pend, intent>>
  ELSE IF ~fail THEN /\ dev' = [dev EXCEPT ![tag] = buf] /\ pend' = FALSE /\ ret' = [k |-> "ok", val |-> buf]
                     /\ UNCHANGED <<buf, tag, intent>>
  ELSE /\ tag' = IF BugKeepOnWriteFail THEN tag ELSE None
       /\ pend' = FALSE                 \* the caller gets the error and gives the modification up
       /\ ret' = [k |-> "err", val |-> 0]
       /\ UNCHANGED <<dev, buf, intent>>

\* write_back_with_duplicate(d): the same contents to a second block (the second FAT)
WriteBackDup(d, fail1, fail2) ==
  IF tag = None THEN /\ ret' = [k |-> "panic", val |-> 0] /\ UNCHANGED <<dev, buf, tag, pend, intent>>
  ELSE IF fail1 THEN /\ tag' = IF BugKeepOnWriteFail THEN tag ELSE None
                     /\ pend' = FALSE
                     /\ ret' = [k |-> "err", val |-> 0]
                     /\ UNCHANGED <<dev, buf, intent>>
  ELSE /\ dev' = IF fail2 THEN [dev EXCEPT ![tag] = buf] ELSE [dev EXCEPT ![tag] = buf, ![d] = buf]
       /\ intent' = [intent EXCEPT ![d] = @ \cup {buf}]
       /\ pend' = FALSE
       /\ ret' = IF fail2 THEN [k |-> "err", val |-> 0] ELSE [k |-> "ok", val |-> buf]
       /\ UNCHANGED <<buf, tag>>

Next == \/ \E b \in Blocks, fail, partial, mut \in BOOLEAN : Read(b, fail, partial, mut)
        \/ \E v \in Vals : Modify(v)
        \/ \E b \in Blocks : BlankMut(b)
        \/ \E fail \in BOOLEAN : WriteBack(fail)
        \/ \E d \in Blocks, f1, f2 \in BOOLEAN : WriteBackDup(d, f1, f2)
Spec == Init /\ [][Next]_vars

\* ------------------------------------------------------------------ properties
TypeOK == /\ DOMAIN dev = Blocks /\ DOMAIN intent = Blocks /\ tag \in Blocks \cup {None} /\ pend \in BOOLEAN
          /\ ret.k \in {"none", "ok", "err", "panic"}
Coherent == tag # None /\ ~pend => buf = dev[tag]
OnlyIntended == \A b \in Blocks : dev[b] \in intent[b]
\* an inductive invariant (checked by Apalache for the unbounded step, see MCCacheInd.tla): besides the two properties,
\* what is cached under a number is something the caller meant for that block, and a mixture is never meant for any
IndInv == /\ TypeOK /\ Coherent /\ OnlyIntended
          /\ (tag # None => buf \in intent[tag])
          /\ \A b \in Blocks : Mix \notin intent[b]
=============================================================================
