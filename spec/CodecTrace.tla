----------------------------- MODULE CodecTrace -----------------------------
(* Vectors recorded from the implementation's codecs validated against Codec.tla / Sfn.tla (C18). *)
EXTENDS Codec, Sfn, Json, IOUtils, TLC
Rec == ndJsonDeserialize(IOEnv.TRACE)
VARIABLE l

V(tag, detail) == {<<"C18", tag, detail>>}

\* ---- date / time words through Timestamp::from_fat and serialize_to_fat
DateTimeTags(e) ==
  LET d == e.date  t == e.time IN
  IF e.panic THEN V("Timestamp", "panic decoding date " \o ToString(d) \o " time " \o ToString(t))
  ELSE IF ~(RepDate(d) /\ RepTime(t)) THEN {}
  ELSE (IF e.ts # TsOf(d, t) THEN V("Timestamp", "from_fat(" \o ToString(d) \o "," \o ToString(t) \o ") decodes to other fields than the FAT layout") ELSE {})
    \cup (IF e.redate # d \/ e.retime # t THEN V("Timestamp", "decode-then-encode changes date/time word " \o ToString(d) \o "/" \o ToString(t)) ELSE {})

\* ---- calendar timestamps: encode then decode, up to the two-second rounding
CalTags(e) ==
  LET c == e.cal   \* <<y, m, d, h, mi, s>>
      want == <<c[1] - 1970, c[2] - 1, c[3] - 1, c[4], c[5], (c[6] \div 2) * 2>>
  IN IF ~e.ok THEN (IF RealDate(c[1], c[2], c[3]) THEN V("Timestamp", "from_calendar refused a timestamp in 1980..2107") ELSE {})   \* (31 April may be refused)
     ELSE (IF e.date # EncDate(c[1], c[2], c[3]) \/ e.time # EncTime(c[4], c[5], c[6]) THEN V("Timestamp", "calendar timestamp encoded to other words than the FAT layout") ELSE {})
       \cup (IF e.back # want THEN V("Timestamp", "encode-then-decode is not the two-second rounding") ELSE {})

\* ---- directory entries
ExpectCluster(e) ==  \* <<hi, lo>> the decoder must report
  LET s == e.raw
      lo == SlotClusLo(s)
      hi == IF e.fat32 THEN SlotClusHi(s) ELSE 0
      isdir == (SlotAttr(s) \div 16) % 2 = 1
  IN IF isdir /\ hi = 0 /\ lo = 0 THEN <<65535, 65532>> ELSE <<hi, lo>>     \* ".." of a first-level directory: the root
SlotTags(e) ==
  LET s == e.raw  d == e.dec  n == e.enc IN
  IF e.panic THEN V("DirEntry", "panic decoding / encoding a directory entry")
  ELSE (IF d.name # NameOf(s) THEN V("DirEntry", "name is not bytes 0..10 (with 0x05 standing for a leading 0xE5)") ELSE {})
    \cup (IF d.attr # SlotAttr(s) % 64 THEN V("DirEntry", "attributes are not byte 11") ELSE {})
    \cup (IF <<d.chi, d.clo>> # ExpectCluster(e) THEN V("DirEntry", "start cluster is not bytes 26..27 (and 20..21 on FAT32)") ELSE {})
    \cup (IF d.slo # SlotSizeLo(s) \/ d.shi # SlotSizeHi(s) THEN V("DirEntry", "size is not bytes 28..31") ELSE {})
    \cup (IF RepDate(SlotWrtDate(s)) /\ RepTime(SlotWrtTime(s)) /\ d.mt # TsOf(SlotWrtDate(s), SlotWrtTime(s)) THEN V("DirEntry", "modification time is not bytes 22..25") ELSE {})
    \cup (IF RepDate(SlotCrtDate(s)) /\ RepTime(SlotCrtTime(s)) /\ d.ct # TsOf(SlotCrtDate(s), SlotCrtTime(s)) THEN V("DirEntry", "creation time is not bytes 14..17") ELSE {})
    \* encoding: the same bytes at the same offsets (bytes 12, 13, 18, 19 are written as zero: named deviation)
    \cup (IF SlotName(n) # StoredName(NameOf(s)) \/ SlotAttr(n) % 64 # SlotAttr(s) % 64 THEN V("DirEntry", "encoded name/attributes differ") ELSE {})
    \cup (IF <<IF e.fat32 THEN SlotClusHi(n) ELSE 0, SlotClusLo(n)>> # ExpectCluster(e) /\ ~(~e.fat32 /\ ExpectCluster(e) = <<65535, 65532>> /\ SlotClusLo(n) = 65532)
          THEN V("DirEntry", "encoded start cluster is not at bytes 26..27 / 20..21") ELSE {})
    \cup (IF ~e.fat32 /\ SlotClusHi(n) # 0 THEN V("DirEntry", "FAT16 entry encoded with a high cluster word") ELSE {})
    \cup (IF SlotSizeLo(n) # SlotSizeLo(s) \/ SlotSizeHi(n) # SlotSizeHi(s) THEN V("DirEntry", "encoded size is not at bytes 28..31") ELSE {})
    \cup (IF RepDate(SlotWrtDate(s)) /\ RepTime(SlotWrtTime(s)) /\ (SlotWrtDate(n) # SlotWrtDate(s) \/ SlotWrtTime(n) # SlotWrtTime(s)) THEN V("DirEntry", "encoded modification time is not at bytes 22..25") ELSE {})
    \cup (IF RepDate(SlotCrtDate(s)) /\ RepTime(SlotCrtTime(s)) /\ (SlotCrtDate(n) # SlotCrtDate(s) \/ SlotCrtTime(n) # SlotCrtTime(s)) THEN V("DirEntry", "encoded creation time is not at bytes 14..17") ELSE {})
    \* round trip, for start clusters the FAT type can hold (FAT16: 16 bits, FAT32: 28 bits)
    \cup (IF e.dec2 # e.dec /\ (IF e.fat32 THEN d.chi < 4096 ELSE d.chi = 0)
          THEN V("DirEntry", "encode-then-decode does not return the same entry") ELSE {})

\* ---- entries created in slots another system left behind (deleted entries, an end marker with unclean bytes behind it):
\* the whole 32 bytes on the medium are the new entry's - name, attribute, no size, and in the fields the library does not
\* keep (NT case flags, creation-time tenths, last-access date) values the FAT specification allows, never what lay there
NewSlotTags(e) ==
  IF ~e.ran THEN V("NewEntry", "creating entries in a directory with reused slots failed or panicked")
  ELSE IF ~e.found THEN V("NewEntry", "a created entry is not in the directory block under its name")
  ELSE LET s == e.new IN
       (IF SlotName(s) # e.name \/ ~(SlotAttr(s) \in (IF e.kind = "dir" THEN {16} ELSE {0, 32})) THEN V("NewEntry", "name / attribute byte of a created entry") ELSE {})
  \cup (IF SlotSizeLo(s) # 0 \/ SlotSizeHi(s) # 0 THEN V("NewEntry", "a created entry has a size") ELSE {})
  \cup (IF ~(s[13] \in {0, 8, 16, 24}) THEN V("NewEntry", "byte 12 (NT case flags) of a created entry holds what lay in the slot before") ELSE {})
  \cup (IF s[14] > 199 THEN V("NewEntry", "byte 13 (creation time, tenths) of a created entry is not in 0..199") ELSE {})
  \cup (IF ~(Le16(s, 18) = 0 \/ RepDate(Le16(s, 18))) THEN V("NewEntry", "bytes 18..19 (last access date) of a created entry are not a date") ELSE {})
  \cup (IF ~e.fat32 /\ SlotClusHi(s) # 0 THEN V("NewEntry", "bytes 20..21 of a created FAT16 entry are not zero") ELSE {})
  \cup (IF ~(RepDate(SlotCrtDate(s)) /\ RepTime(SlotCrtTime(s)) /\ RepDate(SlotWrtDate(s)) /\ RepTime(SlotWrtTime(s))) THEN V("NewEntry", "creation / modification time of a created entry") ELSE {})

\* ---- 8.3 names
SfnTags(e) ==
  LET cs == e.s IN
  IF e.panic THEN V("Sfn", "panic parsing a name")
  ELSE IF DontCare(cs) THEN {}
  ELSE IF Valid(cs) # e.ok THEN V("Sfn", IF e.ok THEN "an invalid 8.3 name was accepted" ELSE "a valid 8.3 name was refused")
  ELSE IF e.tok # e.ok \/ (e.ok /\ e.tname # e.name) THEN V("Sfn", "the ToShortFileName conversion of a &str answers differently from create_from_str")
  ELSE IF ~e.ok THEN {}
  ELSE (IF ~Matches(e.name, cs) THEN V("Sfn", "accepted name is not the padded upper-cased 11 bytes") ELSE {})
    \cup (IF e.reparse # e.name THEN V("Sfn", "printing a parsed name and parsing it again gives other bytes") ELSE {})

Tags(e) == CASE e.ev = "DateTime" -> DateTimeTags(e)
             [] e.ev = "Cal" -> CalTags(e)
             [] e.ev = "Slot" -> SlotTags(e)
             [] e.ev = "NewSlot" -> NewSlotTags(e)
             [] e.ev = "Sfn" -> SfnTags(e)
             [] OTHER -> {}
Next == /\ l <= Len(Rec)
        /\ LET t == Tags(Rec[l]) IN IF t = {} THEN TRUE ELSE PrintT(<<"VIOL", Rec[l].ev, l, t>>)
        /\ l' = l + 1
Done == l = Len(Rec) + 1 /\ PrintT(<<"DONE", Len(Rec), 0>>) /\ UNCHANGED l
Spec == l = 1 /\ [][Next \/ Done]_l
=============================================================================
