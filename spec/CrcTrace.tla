------------------------------ MODULE CrcTrace ------------------------------
(* Every vector recorded from the implementation (library value c7/c16, and the harness's
   bit-serial reference r7/r16 used for the native 2^24 loop) must equal the TLA+ definition. *)
EXTENDS Crc, Json, IOUtils, TLC
Rec == ndJsonDeserialize(IOEnv.TRACE)
VARIABLE l
Next == /\ l <= Len(Rec)
        /\ LET e == Rec[l]
               c7 == Crc7(e.m)
               c16 == Crc16(e.m)
           IN IF e.c7 = c7 /\ e.c16 = c16 /\ e.r7 = c7 /\ e.r16 = c16 THEN TRUE
              ELSE PrintT(<<"VIOL", "crc", l, {<<"C19", IF e.c7 # c7 \/ e.c16 # c16 THEN "Crc" ELSE "Reference",
                            "message of " \o ToString(Len(e.m)) \o " bytes: crc7 " \o ToString(e.c7) \o "/" \o ToString(c7)
                            \o " crc16 " \o ToString(e.c16) \o "/" \o ToString(c16)>>}>>)
        /\ l' = l + 1
Done == l = Len(Rec) + 1 /\ PrintT(<<"DONE", Len(Rec), 0>>) /\ UNCHANGED l
Spec == l = 1 /\ [][Next \/ Done]_l
=============================================================================
