----------------------------- MODULE MCApiSim -----------------------------
(* Behaviours of the API model (MCApi) for replay on the real VolumeManager. *)
EXTENDS MCApi
CONSTANT K
VARIABLE hist
SimInit == MInit /\ hist = <<>>
SimNext == MNext /\ hist' = Append(hist, lastOp')
SimSpec == SimInit /\ [][SimNext]_<<mvars, hist>>
SimBound == Len(hist) <= K /\ Bounded
Emit == (Len(hist) = K) => PrintT(<<"REPLAY", hist>>)
=============================================================================
