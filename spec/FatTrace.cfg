SPECIFICATION TSpec
CHECK_DEADLOCK FALSE
POSTCONDITION Post
