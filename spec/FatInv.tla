------------------------------- MODULE FatInv -------------------------------
(***************************************************************************)
(* Layer B, part 2: the property predicates over a volume-disk record.      *)
(* Names are what the orchestrator maps to property ids:                    *)
(*   WellFormed (C03)  CrashSafe (C10)  Durable (C09)  SpaceExact (C05)     *)
(*   FatCopiesEqual / InfoTruthful (C16).  WriteLegal (C04) lives in        *)
(*   FatTrace because it needs the call in flight.                          *)
(***************************************************************************)
EXTENDS FatDisk

\* ---- per-entry chain soundness -------------------------------------------------------------
EntryChainOK(d, e) ==
  IF e.sl.c = 0 THEN e.sl.k = "file" /\ e.sl.s = 0
  ELSE /\ e.sl.c \in Valid(d.g)
       /\ Chain(d, e.sl.c).st = "ok"
       /\ e.sl.k = "file" /\ e.sl.s >= 0 => Len(Chain(d, e.sl.c).cl) * UnitsPerCluster(d.g) >= e.sl.s

ChainsDisjoint(d) ==
  LET es == {e \in LiveEntries(d) : e.sl.c # 0}
      root == ToSet(RootChain(d).cl)
  IN /\ \A e1, e2 \in es : e1 # e2 => ChainSet(d, e1.sl.c) \cap ChainSet(d, e2.sl.c) = {}
     /\ \A e \in es : ChainSet(d, e.sl.c) \cap root = {}

NamesUnique(d, id) ==
  LET l == Listing(d, id) IN \A i, j \in 1..Len(l) : i # j => l[i].sl.n # l[j].sl.n

\* "." and ".." of a sub-directory: first two slots, pointing at itself and at its parent
DotsOK(d, parent, id) ==
  LET s == DirSlots(d, id) IN
  /\ Len(s) >= 2
  /\ s[1].sl.k = "dir" /\ s[1].sl.n = DotName /\ s[1].sl.c = id
  /\ s[2].sl.k = "dir" /\ s[2].sl.n = DotDotName /\ s[2].sl.c = parent

AllDotsOK(d) ==
  \A p \in GoodDirIds(d) : \A id \in SubDirIds(d, p) : id \in Valid(d.g) => DotsOK(d, p, id)

\* ---- C03 -----------------------------------------------------------------------------------
\* pend = set of chain heads that belong to still-open files whose entry has no cluster yet
WellFormed(d, pend) ==
  /\ RootChain(d).st = "ok"
  /\ \A e \in LiveEntries(d) : EntryChainOK(d, e)
  /\ ChainsDisjoint(d)
  /\ \A id \in GoodDirIds(d) : NamesUnique(d, id) /\ NothingAfterEnd(d, id) /\ ~DirExposesGarbage(d, id)
  /\ DirIds(d) = GoodDirIds(d)
  /\ AllDotsOK(d)
  /\ \A h \in pend : Chain(d, h).st = "ok"
  /\ Orphans(d) \subseteq UNION {ChainSet(d, h) : h \in pend}

WellFormedWhy(d, pend) ==  \* first failing conjunct, for diagnostics
  IF RootChain(d).st # "ok" THEN "root-chain"
  ELSE IF \E e \in LiveEntries(d) : ~EntryChainOK(d, e) THEN "entry-chain"
  ELSE IF ~ChainsDisjoint(d) THEN "cross-link"
  ELSE IF \E id \in GoodDirIds(d) : ~NamesUnique(d, id) THEN "dup-name"
  ELSE IF \E id \in GoodDirIds(d) : ~NothingAfterEnd(d, id) THEN "after-end"
  ELSE IF \E id \in GoodDirIds(d) : DirExposesGarbage(d, id) THEN "garbage-dir"
  ELSE IF DirIds(d) # GoodDirIds(d) THEN "dir-without-cluster"
  ELSE IF ~AllDotsOK(d) THEN "dots"
  ELSE IF \E h \in pend : Chain(d, h).st # "ok" THEN "pending-chain"
  ELSE IF ~(Orphans(d) \subseteq UNION {ChainSet(d, h) : h \in pend}) THEN "orphans"
  ELSE "ok"

\* ---- C05 -----------------------------------------------------------------------------------
SpaceExact(d) == Orphans(d) = {}

\* ---- C10 -----------------------------------------------------------------------------------
\* what a fresh mount may find after any prefix of the write log.  d0 = medium at the start of
\* the call in flight (for "size not yet updated").  Permitted residue: orphans, stale size.
SizeOK(d, d0, e) ==
  e.sl.k = "file" /\ e.sl.c # 0 /\ e.sl.s > Len(Chain(d, e.sl.c).cl) * UnitsPerCluster(d.g)
     => SlotAt(d0, e.b, e.i).s = e.sl.s

CrashSafeWhy(d, d0) ==
  IF ~d.info.ok THEN "unmountable"
  ELSE IF RootChain(d).st # "ok" THEN "root-chain"
  ELSE IF \E e \in LiveEntries(d) : e.sl.c # 0 /\ (e.sl.c \notin Valid(d.g) \/ Chain(d, e.sl.c).st # "ok") THEN "entry-chain"
  ELSE IF \E e \in LiveEntries(d) : e.sl.k = "dir" /\ e.sl.c \notin Valid(d.g) THEN "dir-without-cluster"
  ELSE IF \E e \in LiveEntries(d) : e.sl.c = 0 /\ e.sl.k = "file" /\ e.sl.s # 0 THEN "size-without-cluster"
  ELSE IF ~ChainsDisjoint(d) THEN "cross-link"
  ELSE IF \E id \in GoodDirIds(d) : DirExposesGarbage(d, id) THEN "garbage-dir"
  \* (nothing but end slots behind the end marker of a reachable directory: this library's own lookups read on into the
  \*  next block of the cluster, so uninitialised blocks there are exposed although block 0 looks fine)
  ELSE IF \E id \in GoodDirIds(d) : ~NothingAfterEnd(d, id) THEN "after-end"
  ELSE IF \E e \in LiveEntries(d) : ~SizeOK(d, d0, e) THEN "size-ahead-of-chain"
  ELSE "ok"
CrashSafe(d, d0) == CrashSafeWhy(d, d0) = "ok"

\* ---- C09 -----------------------------------------------------------------------------------
\* dur: set of [dir, n, len, data] recorded at successful flush/close
DurableOK(d, r) ==
  r.dir \in GoodDirIds(d) /\
  \E e \in ToSet(Listing(d, r.dir)) :
     /\ e.sl.n = r.n /\ e.sl.k = "file"
     /\ e.sl.s >= r.len
     /\ DataOf(d, e.sl.c, r.len) = r.data
Durable(d, dur) == \A r \in dur : DurableOK(d, r)

\* ---- C16 -----------------------------------------------------------------------------------
FatCopiesEqual(d) == d.g.nfats = 2 => d.fat1 = d.fat2
=============================================================================
