-------------------------------- MODULE Seek --------------------------------
(***************************************************************************)
(* The three seeks of an open file as documented (src/filesystem/files.rs): *)
(* from the start and from the end by an unsigned amount, from the current  *)
(* offset by a signed one; a target outside 0..length is refused and the    *)
(* offset stays.  File sizes go up to 2^32 - 1 and TLC integers are 32-bit  *)
(* signed, so numbers are pairs <<h, l>> standing for h * 65536 + l with    *)
(* 0 <= l < 65536 (h may be negative).                                      *)
(* The same arithmetic says what a read and a write do to offset and length *)
(* at the far end of a file: a file holds at most 2^32 - 1 bytes, a read    *)
(* stops at the end of the file, and a write that is reported as done is    *)
(* done completely - what does not fit under the limit has to be refused.   *)
(***************************************************************************)
EXTENDS Integers
Norm(p) == <<p[1] + p[2] \div 65536, p[2] % 65536>>
Add(a, b) == Norm(<<a[1] + b[1], a[2] + b[2]>>)
Sub(a, b) == Norm(<<a[1] - b[1], a[2] - b[2]>>)
Neg(a) == a[1] < 0
Le(a, b) == a[1] < b[1] \/ (a[1] = b[1] /\ a[2] <= b[2])
\* [ok, off]: the outcome of a seek on a file of length len standing at off
SeekStart(len, off, x) == IF Le(x, len) THEN [ok |-> TRUE, off |-> x] ELSE [ok |-> FALSE, off |-> off]
SeekEnd(len, off, x) == IF Le(x, len) THEN [ok |-> TRUE, off |-> Sub(len, x)] ELSE [ok |-> FALSE, off |-> off]
SeekCur(len, off, d) == LET t == Add(off, d) IN IF ~Neg(t) /\ Le(t, len) THEN [ok |-> TRUE, off |-> t] ELSE [ok |-> FALSE, off |-> off]
\* ------------------------------------------------------------------ reads and writes of n bytes (n < 2^31) at off
MaxLen == <<65535, 65535>>
Count(n) == Norm(<<0, n>>)
Max2(a, b) == IF Le(a, b) THEN b ELSE a
\* [cnt, off, eof]: a read delivers what lies between the offset and the end of the file, at most n bytes
Left(len, off) == Sub(len, off)
ReadAt(len, off, n) == LET want == IF Le(Count(n), Left(len, off)) THEN Count(n) ELSE Left(len, off)
                       IN [cnt |-> want, off |-> Add(off, want), eof |-> Add(off, want) = len]
\* a write fits when it ends at or below the largest length
WriteFits(off, n) == Le(Add(off, Count(n)), MaxLen)
\* [off, len] after a write that was reported as done
WriteAt(len, off, n) == [off |-> Add(off, Count(n)), len |-> Max2(len, Add(off, Count(n)))]
=============================================================================
