-------------------------------- MODULE Seek --------------------------------
(***************************************************************************)
(* The three seeks of an open file as documented (src/filesystem/files.rs): *)
(* from the start and from the end by an unsigned amount, from the current  *)
(* offset by a signed one; a target outside 0..length is refused and the    *)
(* offset stays.  File sizes go up to 2^32 - 1 and TLC integers are 32-bit  *)
(* signed, so numbers are pairs <<h, l>> standing for h * 65536 + l with    *)
(* 0 <= l < 65536 (h may be negative).                                      *)
(***************************************************************************)
EXTENDS Integers
Norm(p) == <<p[1] + p[2] \div 65536, p[2] % 65536>>
Add(a, b) == Norm(<<a[1] + b[1], a[2] + b[2]>>)
Sub(a, b) == Norm(<<a[1] - b[1], a[2] - b[2]>>)
Neg(a) == a[1] < 0
Le(a, b) == a[1] < b[1] \/ (a[1] = b[1] /\ a[2] <= b[2])
\* [ok, off]: the outcome of a seek on a file of length len standing at off
SeekStart(len, off, x) == IF Le(x, len) THEN [ok |-> TRUE, off |-> x] ELSE [ok |-> FALSE, off |-> off]
SeekEnd(len, off, x) == IF Le(x, len) THEN [ok |-> TRUE, off |-> Sub(len, x)] ELSE [ok |-> FALSE, off |-> off]
SeekCur(len, off, d) == LET t == Add(off, d) IN IF ~Neg(t) /\ Le(t, len) THEN [ok |-> TRUE, off |-> t] ELSE [ok |-> FALSE, off |-> off]
=============================================================================
