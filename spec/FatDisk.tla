------------------------------ MODULE FatDisk ------------------------------
(***************************************************************************)
(* Layer B: the on-disk state of one FAT16/FAT32 volume as decoded          *)
(* structure, and everything that gives it *meaning*: chains, directories,  *)
(* listings, file data, the tree a fresh mount sees.  This module is the    *)
(* "independent FAT reader written from the specification" of C02/C03/C09/  *)
(* C10: the Rust harness only cuts blocks into fields (FAT entry values,    *)
(* 32-byte slots, data units); all interpretation is here.                  *)
(*                                                                         *)
(* A volume-disk record d:                                                  *)
(*   d.g      geometry: fat32, bpc, count, nfats, eps, partStart, partLen,  *)
(*            fatStart, fatLen, fat2Start, rootStart, rootBlocks, dataStart,*)
(*            infoBlk, rootClus, upb, win (tracked clusters), slack         *)
(*   d.fat1, d.fat2   [tracked entry index -> [v, hi]]  (fat2 = <<>> if one)*)
(*   d.blk    [tracked block -> [w : "s"|"u", s : Seq(slot), u : Seq(Int)]] *)
(*   d.info   [ok, f, n]   (-1 = unknown, -2 = out of range)                *)
(*   d.restok every untracked FAT entry still holds its ballast mark        *)
(***************************************************************************)
EXTENDS Integers, Sequences, FiniteSets, SequencesExt, Functions

\* ------------------------------------------------------------------ FAT entries
EocMin(g)  == IF g.fat32 THEN 268435448 ELSE 65528
BadVal(g)  == IF g.fat32 THEN 268435447 ELSE 65527
Valid(g)   == 2..(g.count + 1)

FatV(d, c)  == IF c \in DOMAIN d.fat1 THEN d.fat1[c].v ELSE BadVal(d.g)
IsFreeC(d, c) == c \in DOMAIN d.fat1 /\ d.fat1[c].v = 0
FreeSet(d)  == {c \in DOMAIN d.fat1 : c \in Valid(d.g) /\ d.fat1[c].v = 0}
InUse(d)    == {c \in DOMAIN d.fat1 : c \in Valid(d.g) /\ d.fat1[c].v # 0 /\ d.fat1[c].v # BadVal(d.g)}

\* Bounded walk.  st \in {"ok","start","cycle","free","bad","rsvd","long"}; cl = clusters visited
RECURSIVE ChainR(_, _, _, _)
ChainR(d, c, acc, fuel) ==
  IF c \notin Valid(d.g) THEN [st |-> IF acc = <<>> THEN "start" ELSE "rsvd", cl |-> acc]
  ELSE IF \E i \in 1..Len(acc) : acc[i] = c THEN [st |-> "cycle", cl |-> acc]
  ELSE IF fuel = 0 THEN [st |-> "long", cl |-> acc]
  ELSE LET v == FatV(d, c) IN
       IF v = 0 THEN [st |-> "free", cl |-> Append(acc, c)]
       ELSE IF v = BadVal(d.g) THEN [st |-> "bad", cl |-> Append(acc, c)]
       ELSE IF v >= EocMin(d.g) THEN [st |-> "ok", cl |-> Append(acc, c)]
       ELSE IF v \in Valid(d.g) THEN ChainR(d, v, Append(acc, c), fuel - 1)
       ELSE [st |-> "rsvd", cl |-> Append(acc, c)]

Chain(d, c) == ChainR(d, c, <<>>, Cardinality(DOMAIN d.fat1) + 1)

ClusterBlocks(g, c) == [i \in 1..g.bpc |-> g.dataStart + (c - 2) * g.bpc + (i - 1)]
BlockCluster(g, b)  == ((b - g.dataStart) \div g.bpc) + 2
IsRootBlock(g, b)   == g.rootBlocks > 0 /\ b >= g.rootStart /\ b < g.rootStart + g.rootBlocks
UnitsPerCluster(g)  == g.bpc * g.upb

RECURSIVE FlattenBlocks(_, _, _)
FlattenBlocks(g, cl, i) ==
  IF i > Len(cl) THEN <<>> ELSE ClusterBlocks(g, cl[i]) \o FlattenBlocks(g, cl, i + 1)

\* ------------------------------------------------------------------ directories
\* A directory is identified by its start cluster; 0 is the root.
RootChain(d) == IF d.g.fat32 THEN Chain(d, d.g.rootClus) ELSE [st |-> "ok", cl |-> <<>>]
DirChain(d, id) == IF id = 0 THEN RootChain(d) ELSE Chain(d, id)
DirBlocks(d, id) ==
  IF id = 0 /\ ~d.g.fat32 THEN [i \in 1..d.g.rootBlocks |-> d.g.rootStart + (i - 1)]
  ELSE FlattenBlocks(d.g, DirChain(d, id).cl, 1)

GarbSlot == [k |-> "garb", n |-> "", a |-> 0, c |-> -1, s |-> -1, zh |-> 0, zl |-> 0,
             cd |-> 0, ct |-> 0, wd |-> 0, wt |-> 0, cc |-> -1, wc |-> -1, raw |-> "", p |-> FALSE,
             q |-> 0, cs |-> 0, u |-> <<>>, ck |-> 0]
EndSlot  == [GarbSlot EXCEPT !.k = "end"]

\* stored slots of a block: trimmed sequence (positions beyond it are all-zero end slots)
BlkSlots(d, b) ==
  IF b \in DOMAIN d.blk /\ d.blk[b].w = "s" THEN d.blk[b].s ELSE <<GarbSlot>>
SlotAt(d, b, i) ==  \* i is 0-based
  LET s == BlkSlots(d, b) IN IF i + 1 <= Len(s) THEN s[i + 1] ELSE EndSlot

FirstEnd(s) == \* 1-based index of the first end/garbage slot of a stored block, 0 if none
  IF \E j \in 1..Len(s) : s[j].k \in {"end", "garb"}
  THEN CHOOSE j \in 1..Len(s) : s[j].k \in {"end", "garb"} /\ \A m \in 1..(j - 1) : s[m].k \notin {"end", "garb"}
  ELSE 0

\* the slots of a directory before the end marker, each with its position
RECURSIVE WalkDir(_, _, _)
WalkDir(d, blks, i) ==
  IF i > Len(blks) THEN <<>>
  ELSE LET b == blks[i]
           s == BlkSlots(d, b)
           fe == FirstEnd(s)
           upto == IF fe = 0 THEN Len(s) ELSE fe - 1
           here == [j \in 1..upto |-> [b |-> b, i |-> j - 1, sl |-> s[j]]]
       IN IF fe # 0 \/ Len(s) < 16 THEN here ELSE here \o WalkDir(d, blks, i + 1)

DirSlots(d, id) == WalkDir(d, DirBlocks(d, id), 1)
IsLive(sl)  == sl.k \in {"file", "dir", "label"}
Listing(d, id) == SelectSeq(DirSlots(d, id), LAMBDA e : IsLive(e.sl))

DotName    == "2e20202020202020202020"
DotDotName == "2e2e202020202020202020"
IsDots(n)  == n \in {DotName, DotDotName}

\* a garbage block or a poisoned slot is visible before the end marker
DirExposesGarbage(d, id) ==
  LET blks == DirBlocks(d, id) IN
  \/ \E e \in ToSet(DirSlots(d, id)) : e.sl.p
  \/ \E i \in 1..Len(blks) : BlkSlots(d, blks[i]) = <<GarbSlot>> /\
        \A m \in 1..(i - 1) : LET s == BlkSlots(d, blks[m]) IN FirstEnd(s) = 0 /\ Len(s) = 16

\* all stored slots after the end marker must be end slots
RECURSIVE AfterEndClean(_, _, _, _)
AfterEndClean(d, blks, i, ended) ==
  IF i > Len(blks) THEN TRUE
  ELSE LET s == BlkSlots(d, blks[i])
           fe == FirstEnd(s)
       IN IF ended THEN (\A j \in 1..Len(s) : s[j].k = "end") /\ AfterEndClean(d, blks, i + 1, TRUE)
          ELSE IF fe # 0 THEN (\A j \in fe..Len(s) : s[j].k = "end") /\ AfterEndClean(d, blks, i + 1, TRUE)
          ELSE AfterEndClean(d, blks, i + 1, Len(s) < 16)
NothingAfterEnd(d, id) == AfterEndClean(d, DirBlocks(d, id), 1, FALSE)

SubDirIds(d, id) ==
  {e.sl.c : e \in {x \in ToSet(Listing(d, id)) : x.sl.k = "dir" /\ ~IsDots(x.sl.n)}}

RECURSIVE ReachR(_, _, _, _)
ReachR(d, frontier, seen, fuel) ==
  IF frontier = {} \/ fuel = 0 THEN seen
  ELSE LET new == (UNION {SubDirIds(d, id) : id \in frontier}) \ seen
       IN ReachR(d, {x \in new : x \in Valid(d.g)}, seen \cup new, fuel - 1)
\* ids of all directories reachable from the root (ids outside Valid are kept: they are dangling)
DirIds(d) == ReachR(d, {0}, {0}, 6)
GoodDirIds(d) == {id \in DirIds(d) : id = 0 \/ id \in Valid(d.g)}

\* ------------------------------------------------------------------ file data
BlkUnits(d, b) ==
  IF b \in DOMAIN d.blk THEN d.blk[b].u ELSE [j \in 1..d.g.upb |-> -1]

RECURSIVE UnitsOfBlocks(_, _, _, _)
UnitsOfBlocks(d, blks, i, need) ==
  IF i > Len(blks) \/ need <= 0 THEN <<>>
  ELSE BlkUnits(d, blks[i]) \o UnitsOfBlocks(d, blks, i + 1, need - d.g.upb)

\* the first n units stored on the chain that starts at cluster c (<<>> for c = 0);
\* shorter than n if the chain is too short
DataOf(d, c, n) ==
  IF c = 0 \/ n <= 0 THEN <<>>
  ELSE LET all == UnitsOfBlocks(d, FlattenBlocks(d.g, Chain(d, c).cl, 1), 1, n)
       IN SubSeq(all, 1, IF Len(all) < n THEN Len(all) ELSE n)

\* ------------------------------------------------------------------ abstraction of the medium
\* what a fresh mount sees, in the vocabulary of FatApi
AbsEntry(d, e) ==
  [n |-> e.sl.n, k |-> e.sl.k, ro |-> (e.sl.a % 2 = 1), len |-> e.sl.s, ct |-> e.sl.cc, mt |-> e.sl.wc,
   id |-> IF e.sl.k = "dir" THEN e.sl.c ELSE 0,
   data |-> IF e.sl.k = "file" /\ e.sl.s > 0 THEN DataOf(d, e.sl.c, e.sl.s) ELSE <<>>]
AbsListing(d, id) == LET l == Listing(d, id) IN [i \in 1..Len(l) |-> AbsEntry(d, l[i])]
AbsTree(d) == [id \in GoodDirIds(d) |-> AbsListing(d, id)]

\* ------------------------------------------------------------------ ownership
LiveEntries(d) ==  \* all live file/dir slots of all reachable directories (without the dot directories; a *file* named "." is a file)
  UNION {{[dir |-> id, b |-> e.b, i |-> e.i, sl |-> e.sl] :
            e \in {x \in ToSet(Listing(d, id)) : x.sl.k \in {"file", "dir"} /\ ~(x.sl.k = "dir" /\ IsDots(x.sl.n))}} : id \in GoodDirIds(d)}
ChainSet(d, c) == IF c = 0 THEN {} ELSE ToSet(Chain(d, c).cl)
Owned(d) == ToSet(RootChain(d).cl) \cup UNION {ChainSet(d, e.sl.c) : e \in LiveEntries(d)}
Orphans(d) == InUse(d) \ Owned(d)
\* heads of orphan chains: orphan clusters nobody in use points to
OrphanHeads(d) == {c \in Orphans(d) : ~\E p \in InUse(d) : FatV(d, p) = c}
=============================================================================
