INIT SimInit
NEXT SimNext
CONSTANTS
  BL = 2
  BPC = 2
  NC = 6
  MaxLen = 14
  MaxOps = 14
  BugRewindHalf = FALSE
  BugLateCursor = FALSE
  BugStepInCluster = FALSE
INVARIANTS Emit ReadExact ChainHoldsFile NoAssert OnlyDiskFull CursorSane CursorOnChain
CHECK_DEADLOCK FALSE
