SPECIFICATION MSpec
CONSTANTS MaxH = 4  Wrap = TRUE  LimD = 2  LimF = 2  OnlyIssued = FALSE
CONSTRAINT Bounded
INVARIANTS HandlesDistinct LimitsRespected NothingOnClosedVolume OpenFilesAreFiles NoFileOpenTwice OpenDirsAreDirs ReadOnlyUntouched NamesUniqueM
VIEW mview
CHECK_DEADLOCK FALSE
