SPECIFICATION Spec
CONSTANTS
  Kind = "sdhc"
  UseCrc = TRUE
  NB = 3
  MaxN = 2
  MaxFaults = 1
  MaxOps = 3
  A41Set = {0, 1, 3}
  Retries = 1
  LoopBud = 2
  BugNoStopWait = FALSE
  BugIgnoreR1 = FALSE
  BugNoTerminate = FALSE
  BugKeepType = FALSE
  BugNoStatus = FALSE
  BugPreCount = FALSE
VIEW view
INVARIANTS TypeOK Legal ReadExact WriteExact NowhereElse KindRight HealthyOk FaultIsError FailedInitForgets
PROPERTY Terminates
CHECK_DEADLOCK FALSE
