------------------------------ MODULE LfnTrace ------------------------------
(* LfnBuffer vectors from the implementation validated against Lfn.tla (C17, first sentence). *)
EXTENDS Lfn, Json, IOUtils, TLC
Rec == ndJsonDeserialize(IOEnv.TRACE)
VARIABLE l
Tags(e) ==
  IF e.panic THEN {<<"C17", "LfnBuffer", "panic pushing " \o ToString(Len(e.frags)) \o " fragment(s) into a buffer of " \o ToString(e.size) \o " bytes">>}
  ELSE IF ~e.utf8ok THEN {<<"C17", "LfnBuffer", "result is not valid UTF-8">>}
  ELSE IF e.out # BufferText(e.frags, e.size)
       THEN {<<"C17", "LfnBuffer", IF e.out = <<>> THEN "empty although the name fits"
                                  ELSE IF BufferText(e.frags, e.size) = <<>> THEN "text although the name does not fit"
                                  ELSE "text differs from the lossy decoding of the joined fragments">>}
  ELSE {}
Next == /\ l <= Len(Rec)
        /\ LET t == Tags(Rec[l]) IN IF t = {} THEN TRUE ELSE PrintT(<<"VIOL", "lfn", l, t>>)
        /\ l' = l + 1
Done == l = Len(Rec) + 1 /\ PrintT(<<"DONE", Len(Rec), 0>>) /\ UNCHANGED l
Spec == l = 1 /\ [][Next \/ Done]_l
=============================================================================
