------------------------------- MODULE MCCrc -------------------------------
(***************************************************************************)
(* The two shift registers model-checked: TLC visits every register value   *)
(* (65 536 / 128 states, one transition per input bit) and the ASSUMEs      *)
(* establish, exhaustively over the register, the algebra C19 rests on:     *)
(*  - the bit step is a bijection on the register for either input bit      *)
(*    (so distinct remainders stay distinct: per-byte bijectivity),         *)
(*  - the register update is GF(2)-linear (checked against the basis),      *)
(*  - feeding the register's own value back in yields zero (appending the   *)
(*    big-endian checksum to a message gives checksum zero),                *)
(*  - x^k mod g for k = 0..4111 is never 0 (single-bit errors) and never 1  *)
(*    for k >= 1 (so 1 + x^d, every double-bit error pattern in a 4112-bit  *)
(*    frame, is never a multiple of g), and a burst of up to 16 bits is     *)
(*    x^i * p(x) with deg p < 16, p # 0, which g (degree 16, g(0) = 1)      *)
(*    cannot divide - checked as: every non-zero 16-bit pattern pushed      *)
(*    through 16 zero bits leaves a non-zero register.                      *)
(***************************************************************************)
EXTENDS Crc, FiniteSets, TLC

CONSTANT W            \* 16 or 7
VARIABLE reg

Step(r, bit) == IF W = 16 THEN Bit16(r, bit) ELSE Bit7(r, bit)
Top == 2 ^ W
Regs == 0..(Top - 1)

Init == reg = 0
Next == \E bit \in {0, 1} : reg' = Step(reg, bit)
Spec == Init /\ [][Next]_reg
TypeOK == reg \in Regs

\* --- bijectivity of the bit step
ASSUME \A bit \in {0, 1} : Cardinality({Step(r, bit) : r \in Regs}) = Top

\* --- linearity: the zero-input step of r is the XOR of the steps of its set bits
RECURSIVE XorBasis(_, _)
XorBasis(r, i) == IF i = W THEN 0
                  ELSE (IF (r \div (2 ^ i)) % 2 = 1 THEN Step(2 ^ i, 0) ELSE 0) ^^ XorBasis(r, i + 1)
ASSUME \A r \in Regs : Step(r, 0) = XorBasis(r, 0)
\* the input bit enters at the top: stepping with bit 1 = stepping the register with its top bit flipped
ASSUME \A r \in Regs : Step(r, 1) = Step(r ^^ (Top \div 2), 0)

\* --- appending the checksum gives zero: shifting a register value in, msb first, empties it
RECURSIVE FeedSelf(_, _, _)
FeedSelf(r, v, i) == IF i < 0 THEN r ELSE FeedSelf(Step(r, (v \div (2 ^ i)) % 2), v, i - 1)
ASSUME \A r \in Regs : FeedSelf(r, r, W - 1) = 0

\* --- powers of x modulo g: pw[k] = x^k mod g
FrameBits == IF W = 16 THEN 4112 ELSE 48
\* iterative (TLC's stack does not survive a 4112-deep recursion): Powers[k] = x^(k-1) mod g
Powers == FoldLeft(LAMBDA acc, k : Append(acc, Step(acc[Len(acc)], 0)), <<1>>, [k \in 1..(FrameBits - 1) |-> k])
ASSUME \A k \in 1..FrameBits : Powers[k] # 0
ASSUME \A k \in 2..FrameBits : Powers[k] # 1

\* --- bursts: a non-zero pattern of up to W bits followed by zeros never empties the register
RECURSIVE ShiftZeros(_, _)
ShiftZeros(r, n) == IF n = 0 THEN r ELSE ShiftZeros(Step(r, 0), n - 1)
ASSUME \A p \in Regs \ {0} : ShiftZeros(p, W) # 0
=============================================================================
