------------------------------- MODULE FatApi -------------------------------
(***************************************************************************)
(* Layer A: what every public call of VolumeManager (and of the RAII /      *)
(* embedded-io wrappers, which map to the same actions) must return and     *)
(* change, independent of any FAT machinery: files are arrays of unit       *)
(* values, directories are listings in slot order, plus the three open      *)
(* tables and their limits.                                                 *)
(*                                                                         *)
(* Each operation Op has                                                    *)
(*    OpRefs(args)        the set of refusals that apply in the current     *)
(*                        state: error names, "*" = any error               *)
(*    OpPost(args, res..) the next-state relation when the call succeeds    *)
(* A result is admissible iff (no refusal applies and it is ok) or (some    *)
(* refusal applies and it is an error named by one of them, any error if    *)
(* "*" applies).  Where the properties leave a choice to the implementation *)
(* (which slot a new entry takes, which id a new directory gets, how much   *)
(* of a write fits) the choice is a parameter: FatTrace binds it from the   *)
(* observed medium, MCApi quantifies over it.                               *)
(***************************************************************************)
EXTENDS Integers, Sequences, FiniteSets, SequencesExt

VARIABLES
  dirs,    \* [vol -> [dirId -> Seq(Entry)]]   Entry = [n,k,ro,len,ct,mt,id,data]; data is write-through
  ovols,   \* Seq([h, vol])
  odirs,   \* Seq([h, vol, id])
  ofiles,  \* Seq([h, vol, dir, n, rw, off, dirty, mt, fc])
  lim      \* [d, f, v]   the configured limits

apiVars == <<dirs, ovols, odirs, ofiles, lim>>

DotN    == "2e20202020202020202020"
DotDotN == "2e2e202020202020202020"

\* ------------------------------------------------------------------ helpers
IdxOf(seq, h) == IF \E i \in 1..Len(seq) : seq[i].h = h
                 THEN CHOOSE i \in 1..Len(seq) : seq[i].h = h ELSE 0
HasH(seq, h) == IdxOf(seq, h) # 0
RecOf(seq, h) == seq[IdxOf(seq, h)]
OpenHandles == {ovols[i].h : i \in 1..Len(ovols)} \cup {odirs[i].h : i \in 1..Len(odirs)}
               \cup {ofiles[i].h : i \in 1..Len(ofiles)}
DropAt(seq, i) == [j \in 1..(Len(seq) - 1) |-> IF j < i THEN seq[j] ELSE seq[j + 1]]
PutAt(seq, i, x) == [j \in 1..(Len(seq) + 1) |-> IF j < i THEN seq[j] ELSE IF j = i THEN x ELSE seq[j - 1]]
\* the code removes with swap_remove: the order inside the tables is not observable, keep it simple

EntIdx(vol, id, n) ==
  LET l == dirs[vol][id] IN
  IF \E i \in 1..Len(l) : l[i].n = n
  THEN CHOOSE i \in 1..Len(l) : l[i].n = n /\ \A j \in 1..(i - 1) : l[j].n # n ELSE 0
IsOpenFile(vol, id, n) == \E i \in 1..Len(ofiles) : ofiles[i].vol = vol /\ ofiles[i].dir = id /\ ofiles[i].n = n
Min2(a, b) == IF a < b THEN a ELSE b
Max2(a, b) == IF a > b THEN a ELSE b
Overwrite(data, off, vals) ==  \* off is 0-based
  [i \in 1..Max2(Len(data), off + Len(vals)) |->
      \* (total: after a reported deviation the offset can lie behind the end of the data the model holds)
      IF i > off /\ i <= off + Len(vals) THEN vals[i - off] ELSE IF i <= Len(data) THEN data[i] ELSE -1]

Admissible(refs, res) ==
  IF refs = {} THEN res.k \in {"ok", "drop"}
  ELSE res.k = "drop" \/ (res.k = "err" /\ ("*" \in refs \/ res.e \in refs))

SpaceErrs == {"DiskFull", "NotEnoughSpace"}

\* ------------------------------------------------------------------ volumes
OpenVolumeRefs(vol, isFat) ==
     (IF Len(ovols) >= lim.v THEN {"TooManyOpenVolumes"} ELSE {})
  \cup (IF \E i \in 1..Len(ovols) : ovols[i].vol = vol THEN {"VolumeAlreadyOpen"} ELSE {})
  \cup (IF ~isFat THEN {"*"} ELSE {})
OpenVolumePost(vol, h) ==
  /\ ovols' = Append(ovols, [h |-> h, vol |-> vol])
  /\ UNCHANGED <<dirs, odirs, ofiles, lim>>

CloseVolumeRefs(h) ==
  IF ~HasH(ovols, h) THEN {"BadHandle"}
  ELSE LET vol == RecOf(ovols, h).vol IN
       IF (\E i \in 1..Len(odirs) : odirs[i].vol = vol) \/ (\E i \in 1..Len(ofiles) : ofiles[i].vol = vol)
       THEN {"VolumeStillInUse"} ELSE {}
CloseVolumePost(h) ==
  /\ ovols' = DropAt(ovols, IdxOf(ovols, h))
  /\ UNCHANGED <<dirs, odirs, ofiles, lim>>

\* ------------------------------------------------------------------ directories
OpenRootRefs(vh) ==
     (IF ~HasH(ovols, vh) THEN {"BadHandle"} ELSE {})
  \cup (IF Len(odirs) >= lim.d THEN {"TooManyOpenDirs"} ELSE {})
OpenRootPost(vh, h) ==
  /\ odirs' = Append(odirs, [h |-> h, vol |-> RecOf(ovols, vh).vol, id |-> 0])
  /\ UNCHANGED <<dirs, ovols, ofiles, lim>>

\* "." is documented to re-open the same directory; the root has no "." slot, so there both
\* success and NotFound are admissible (interpretation decision 3)
OpenDirRefs(dh, nm, nmok) ==
     (IF Len(odirs) >= lim.d THEN {"TooManyOpenDirs"} ELSE {})
  \cup (IF ~HasH(odirs, dh) THEN {"BadHandle"} ELSE
        IF ~nmok THEN {"*"} ELSE
        LET r == RecOf(odirs, dh)
            i == EntIdx(r.vol, r.id, nm)
        IN IF nm = DotN THEN {}
           ELSE IF i = 0 THEN {"NotFound"}
           ELSE IF dirs[r.vol][r.id][i].k # "dir" THEN {"*"} ELSE {})
OpenDirMayFail(dh, nm) ==  \* the "." on a root case
  HasH(odirs, dh) /\ nm = DotN /\ EntIdx(RecOf(odirs, dh).vol, RecOf(odirs, dh).id, nm) = 0
OpenDirTarget(dh, nm) ==
  LET r == RecOf(odirs, dh) IN
  IF nm = DotN THEN r.id ELSE dirs[r.vol][r.id][EntIdx(r.vol, r.id, nm)].id
OpenDirPost(dh, nm, h) ==
  /\ odirs' = Append(odirs, [h |-> h, vol |-> RecOf(odirs, dh).vol, id |-> OpenDirTarget(dh, nm)])
  /\ UNCHANGED <<dirs, ovols, ofiles, lim>>
\* change_dir = open_dir + close of the old handle, the variable now names the new handle
ChangeDirPost(dh, nm, h) ==
  /\ odirs' = Append(DropAt(odirs, IdxOf(odirs, dh)),
                     [h |-> h, vol |-> RecOf(odirs, dh).vol, id |-> OpenDirTarget(dh, nm)])
  /\ UNCHANGED <<dirs, ovols, ofiles, lim>>

CloseDirRefs(dh) == IF ~HasH(odirs, dh) THEN {"BadHandle"} ELSE {}
CloseDirPost(dh) ==
  /\ odirs' = DropAt(odirs, IdxOf(odirs, dh))
  /\ UNCHANGED <<dirs, ovols, ofiles, lim>>

FindRefs(dh, nm, nmok) ==
  IF ~HasH(odirs, dh) THEN {"BadHandle"} ELSE
  IF ~nmok THEN {"*"} ELSE
  LET r == RecOf(odirs, dh) IN IF EntIdx(r.vol, r.id, nm) = 0 THEN {"NotFound"} ELSE {}

IterateRefs(dh) == IF ~HasH(odirs, dh) THEN {"BadHandle"} ELSE {}

\* ------------------------------------------------------------------ files
CreateModes == {"Create", "CreateOrTruncate", "CreateOrAppend"}
OpenFileRefs(dh, nm, nmok, mode, nospace) ==
     (IF Len(ofiles) >= lim.f THEN {"TooManyOpenFiles"} ELSE {})
  \cup (IF ~HasH(odirs, dh) THEN {"BadHandle"} ELSE
        IF ~nmok THEN {"*"} ELSE
        LET r == RecOf(odirs, dh)
            i == EntIdx(r.vol, r.id, nm)
        IN IF i = 0
           THEN (IF mode \in CreateModes THEN (IF nospace THEN SpaceErrs ELSE {}) ELSE {"NotFound"})
           ELSE LET e == dirs[r.vol][r.id][i] IN
                  (IF e.k \in {"dir", "label"} THEN {"*"} ELSE {})       \* a directory or the volume label is not a file
             \cup (IF IsOpenFile(r.vol, r.id, nm) THEN {"*"} ELSE {})
             \cup (IF mode = "Create" THEN {"*"} ELSE {})
             \cup (IF e.ro /\ mode # "ReadOnly" THEN {"*"} ELSE {}))

NewFileEntry(nm, now) ==
  [n |-> nm, k |-> "file", ro |-> FALSE, len |-> 0, ct |-> now, mt |-> now, id |-> 0, data |-> <<>>]

\* pos: listing position the new entry takes (only used when the name is missing)
OpenFilePost(dh, nm, mode, h, now, pos) ==
  LET r == RecOf(odirs, dh)
      i == EntIdx(r.vol, r.id, nm)
      l == dirs[r.vol][r.id]
  IN IF i = 0
     THEN /\ dirs' = [dirs EXCEPT ![r.vol][r.id] = PutAt(l, Min2(Max2(pos, 1), Len(l) + 1), NewFileEntry(nm, now))]
          /\ ofiles' = Append(ofiles, [h |-> h, vol |-> r.vol, dir |-> r.id, n |-> nm, rw |-> TRUE,
                                       off |-> 0, dirty |-> FALSE, mt |-> now, fc |-> 0, fcq |-> FALSE])
          /\ UNCHANGED <<ovols, odirs, lim>>
     ELSE LET e == l[i]
              trunc == mode \in {"Truncate", "CreateOrTruncate"}
              app == mode \in {"Append", "CreateOrAppend"}
              e2 == IF trunc THEN [e EXCEPT !.data = <<>>, !.len = 0, !.mt = now] ELSE e
          IN /\ dirs' = [dirs EXCEPT ![r.vol][r.id][i] = e2]
             /\ ofiles' = Append(ofiles, [h |-> h, vol |-> r.vol, dir |-> r.id, n |-> nm,
                                          rw |-> (mode # "ReadOnly"),
                                          off |-> IF app THEN Len(e.data) ELSE 0,
                                          dirty |-> FALSE, mt |-> e2.mt, fc |-> 0, fcq |-> FALSE])
             /\ UNCHANGED <<ovols, odirs, lim>>

FileEntry(f) == dirs[f.vol][f.dir][EntIdx(f.vol, f.dir, f.n)]
FileData(f) == FileEntry(f).data

FileRefs(fh) == IF ~HasH(ofiles, fh) THEN {"BadHandle"} ELSE {}

\* read: any count 1..min(n, left) is admissible (embedded-io allows short reads); 0 only for n = 0 or at eof
ReadResOK(fh, n, cnt, vals) ==
  LET f == RecOf(ofiles, fh)
      left == Len(FileData(f)) - f.off
      mx == Min2(n, left)
  IN /\ IF mx = 0 THEN cnt = 0 ELSE cnt >= 1 /\ cnt <= mx
     /\ vals = SubSeq(FileData(f), f.off + 1, f.off + cnt)
ReadPost(fh, cnt) ==
  /\ ofiles' = [ofiles EXCEPT ![IdxOf(ofiles, fh)].off = @ + cnt]
  /\ UNCHANGED <<dirs, ovols, odirs, lim>>

WriteRefs(fh) ==
  IF ~HasH(ofiles, fh) THEN {"BadHandle"} ELSE IF ~RecOf(ofiles, fh).rw THEN {"*"} ELSE {}
\* acc = number of units accepted (all of them on success), fc = first cluster bound by FatTrace
WritePost(fh, vals, acc, now, ok, fc) ==
  LET fi == IdxOf(ofiles, fh)
      f == ofiles[fi]
      ei == EntIdx(f.vol, f.dir, f.n)
  IN /\ dirs' = [dirs EXCEPT ![f.vol][f.dir][ei].data = Overwrite(@, f.off, SubSeq(vals, 1, acc))]
     /\ ofiles' = [ofiles EXCEPT ![fi] = [f EXCEPT !.off = f.off + acc, !.dirty = TRUE,
                                                  !.mt = IF ok THEN now ELSE f.mt, !.fc = fc, !.fcq = FALSE]]
     /\ UNCHANGED <<ovols, odirs, lim>>

SeekTarget(fh, kind, u) ==
  LET f == RecOf(ofiles, fh) IN
  CASE kind = "seek_start" -> u
    [] kind = "seek_end" -> Len(FileData(f)) - u
    [] kind = "seek_cur" -> f.off + u
SeekRefs(fh, kind, u) ==
  IF ~HasH(ofiles, fh) THEN {"BadHandle"} ELSE
  LET t == SeekTarget(fh, kind, u) IN
  IF t < 0 \/ t > Len(FileData(RecOf(ofiles, fh))) \/ (kind # "seek_cur" /\ u < 0) THEN {"InvalidOffset"} ELSE {}
SeekPost(fh, kind, u) ==
  /\ ofiles' = [ofiles EXCEPT ![IdxOf(ofiles, fh)].off = SeekTarget(fh, kind, u)]
  /\ UNCHANGED <<dirs, ovols, odirs, lim>>

\* flush: the on-disk entry becomes the in-memory one
FlushedEntry(f) == [FileEntry(f) EXCEPT !.len = Len(FileEntry(f).data), !.mt = f.mt]
FlushPost(fh) ==
  LET f == RecOf(ofiles, fh) IN
  /\ dirs' = IF f.dirty THEN [dirs EXCEPT ![f.vol][f.dir][EntIdx(f.vol, f.dir, f.n)] = FlushedEntry(f)] ELSE dirs
  /\ UNCHANGED <<ovols, odirs, ofiles, lim>>
CloseFilePost(fh) ==
  LET f == RecOf(ofiles, fh) IN
  /\ dirs' = IF f.dirty THEN [dirs EXCEPT ![f.vol][f.dir][EntIdx(f.vol, f.dir, f.n)] = FlushedEntry(f)] ELSE dirs
  /\ ofiles' = DropAt(ofiles, IdxOf(ofiles, fh))
  /\ UNCHANGED <<ovols, odirs, lim>>

\* ------------------------------------------------------------------ delete / mkdir
DeleteRefs(dh, nm, nmok) ==
  IF ~HasH(odirs, dh) THEN {"BadHandle"} ELSE
  IF ~nmok THEN {"*"} ELSE
  LET r == RecOf(odirs, dh)
      i == EntIdx(r.vol, r.id, nm)
  IN IF i = 0 THEN {"NotFound"}
     ELSE (IF dirs[r.vol][r.id][i].k \in {"dir", "label"} THEN {"*"} ELSE {})
       \cup (IF IsOpenFile(r.vol, r.id, nm) THEN {"*"} ELSE {})
DeletePost(dh, nm) ==
  LET r == RecOf(odirs, dh) IN
  /\ dirs' = [dirs EXCEPT ![r.vol][r.id] = DropAt(@, EntIdx(r.vol, r.id, nm))]
  /\ UNCHANGED <<ovols, odirs, ofiles, lim>>

\* make_dir_in_dir refuses with TooManyOpenDirs when the directory table is full although it
\* opens nothing (named deviation): both outcomes are admissible then.
MkDirRefs(dh, nm, nmok, nospace) ==
  IF ~HasH(odirs, dh) THEN {"BadHandle"} ELSE
  IF ~nmok THEN {"*"} ELSE
  LET r == RecOf(odirs, dh) IN
  IF EntIdx(r.vol, r.id, nm) # 0 THEN {"*"}
  ELSE IF nm \in {DotN, DotDotN} THEN {"*"}
  ELSE IF nospace THEN SpaceErrs ELSE {}
MkDirMayRefuse == Len(odirs) >= lim.d
DirEntryRec(nm, id, now) ==
  [n |-> nm, k |-> "dir", ro |-> FALSE, len |-> 0, ct |-> now, mt |-> now, id |-> id, data |-> <<>>]
MkDirPost(dh, nm, newid, pos, now) ==
  LET r == RecOf(odirs, dh)
      l == dirs[r.vol][r.id]
      withEntry == [dirs[r.vol] EXCEPT ![r.id] = PutAt(l, Min2(Max2(pos, 1), Len(l) + 1), DirEntryRec(nm, newid, now))]
      child == <<DirEntryRec(DotN, newid, now), DirEntryRec(DotDotN, r.id, now)>>
  IN /\ dirs' = [dirs EXCEPT ![r.vol] = [x \in DOMAIN withEntry \cup {newid} |->
                                            IF x = newid THEN child ELSE withEntry[x]]]
     /\ UNCHANGED <<ovols, odirs, ofiles, lim>>

HasOpenTruth == Len(odirs) > 0 \/ Len(ofiles) > 0
=============================================================================
