SPECIFICATION TSpec
CONSTANTS
  Blocks = {1, 2, 3}
  Vals = {7, 8}
  BugKeepOnWriteFail = FALSE
  BugTagBeforeRead = FALSE
  BugKeepTagOnReadFail = FALSE
CHECK_DEADLOCK FALSE
