----------------------------- MODULE MCImplSim -----------------------------
(* Behaviours of FatImpl for replay on the real implementation (spec -> impl): TLC's simulator
   walks the model, the operation labels of each behaviour are printed as one REPLAY line. *)
EXTENDS FatImpl
CntUnknown == {-1}
CntExact == {3}          \* N = 4: the root and three free clusters
CONSTANT K              \* operations per behaviour
VARIABLE hist
SimInit == Init /\ hist = <<>>
\* crash-free behaviours: a crash ends what the library instance can be asked (C09/C10 crash points are
\* covered by evaluating CrashSafe/Durable on every device write of the replayed run)
\* the device writes the call will issue, in order, without their payloads
AbsW(w) == CASE w.t \in {"fat", "fat2"} -> <<w.t, w.c, w.v>>
             [] w.t = "slot" -> <<"slot", w.b, w.i>>
             [] w.t = "info" -> <<"info", 0>>
             [] OTHER -> <<w.t, w.c>>
AbsPlan(p) == [i \in 1..Len(p) |-> AbsW(p[i])]
SimNext == /\ Next /\ lastOp' # <<"crash">> /\ lastOp' # <<"remount">>
           /\ hist' = IF lastOp' = <<"w">> THEN hist ELSE Append(hist, <<lastOp', AbsPlan(plan')>>)
SimSpec == SimInit /\ [][SimNext]_<<vars, hist>>
Bound == Len(hist) <= K
Emit == (Len(hist) = K /\ plan = <<>> /\ lastOp # <<"w">>) => PrintT(<<"REPLAY", hist>>)
Emit2 == (Len(hist) = K /\ plan = <<>> /\ lastOp = <<"w">>) => PrintT(<<"REPLAY", hist>>)
=============================================================================
