----------------------------- MODULE CacheTrace -----------------------------
(***************************************************************************)
(* Every recorded call on the real BlockCache (harness/src/cachevec.rs) is   *)
(* one action of BlockCache.tla with the parameters of the event; what the   *)
(* real cache returned and what the device then holds must be what the       *)
(* action gives.  After a difference the rest of that sequence is skipped.   *)
(***************************************************************************)
EXTENDS BlockCache, Json, IOUtils, TLC, Sequences
Rec == ndJsonDeserialize(IOEnv.TRACE)
VARIABLES l, dead, nb
tvars == <<vars, l, dead, nb>>
IsEv(k) == l <= Len(Rec) /\ Rec[l].ev = k

TReset ==
  /\ IsEv("Reset")
  /\ nb' = Rec[l].nblocks
  /\ dev' = [b \in 1..Rec[l].nblocks |-> b] /\ buf' = Blank /\ tag' = None /\ pend' = FALSE
  /\ intent' = [b \in 1..Rec[l].nblocks |-> {b}] /\ ret' = [k |-> "none", val |-> 0]
  /\ dead' = FALSE /\ l' = l + 1

\* the action an event stands for
Act(e) ==
  CASE e.ev = "Read" -> Read(e.b, e.fail, e.partial, e.mut)
    [] e.ev = "Modify" -> Modify(e.v)
    [] e.ev = "Blank" -> BlankMut(e.b)
    [] e.ev = "WriteBack" -> WriteBack(e.fail)
    [] e.ev = "WriteBackDup" -> WriteBackDup(e.d, e.f1, e.f2)

Tags(e) ==
  (IF e.r # ret'.k THEN {<<"C11", "CacheResult", e.ev \o " returned " \o e.r \o " where the specification of the cache gives " \o ret'.k>>} ELSE {})
  \cup (IF e.r = "ok" /\ ret'.k = "ok" /\ e.ev \in {"Read", "Modify"} /\ e.val # ret'.val
        THEN {<<"C11", "CacheStale", "the cache handed out other contents than the device holds for that block (or the caller's pending change)">>} ELSE {})
  \cup (IF [b \in 1..nb |-> e.dev[b]] # dev'
        THEN {<<"C04", "CacheWrite", "after " \o e.ev \o " the device holds something else than the specification of the cache gives">>} ELSE {})

TStep ==
  /\ l <= Len(Rec) /\ Rec[l].ev # "Reset" /\ ~dead
  /\ LET e == Rec[l] IN
     /\ Act(e)
     /\ LET t == Tags(e) IN
        /\ (t = {} \/ PrintT(<<"VIOL", "cache", l, t>>))
        /\ dead' = (t # {})
  /\ l' = l + 1 /\ nb' = nb

TSkip ==
  /\ l <= Len(Rec) /\ Rec[l].ev # "Reset" /\ dead
  /\ l' = l + 1 /\ UNCHANGED <<vars, dead, nb>>

TDone == l = Len(Rec) + 1 /\ PrintT(<<"DONE", Len(Rec), 0>>) /\ UNCHANGED tvars
TInit == Init /\ l = 1 /\ dead = FALSE /\ nb = 0
TSpec == TInit /\ [][TReset \/ TStep \/ TSkip \/ TDone]_tvars
=============================================================================
