INIT SimInit
NEXT SimNext
CONSTANTS
  ArmMax = 60
  Kind = "sdhc"
  UseCrc = TRUE
  NB = 3
  MaxN = 3
  MaxFaults = 2
  MaxOps = 6
  A41Set = {0, 1, 9}
  Retries = 2
  LoopBud = 5
  BugNoStopWait = FALSE
  BugIgnoreR1 = FALSE
  BugNoTerminate = FALSE
  BugKeepType = FALSE
  BugNoStatus = FALSE
  BugPreCount = FALSE
INVARIANTS TourDone Legal ReadExact WriteExact NowhereElse KindRight HealthyOk FaultIsError FailedInitForgets
CHECK_DEADLOCK FALSE
