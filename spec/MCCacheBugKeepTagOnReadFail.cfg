SPECIFICATION Spec
CONSTANTS
  Blocks = {1, 2}
  Vals = {7}
  BugKeepOnWriteFail = FALSE
  BugTagBeforeRead = FALSE
  BugKeepTagOnReadFail = TRUE
INVARIANTS Coherent OnlyIntended
CHECK_DEADLOCK FALSE
