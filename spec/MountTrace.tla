----------------------------- MODULE MountTrace -----------------------------
(* open_volume on mutated partition tables / boot sectors / info sectors (C15): never a panic;
   a layout that Mount.Valid accepts must mount and list the files the formatter placed. *)
EXTENDS Mount, Json, IOUtils, TLC, Sequences
Rec == ndJsonDeserialize(IOEnv.TRACE)
VARIABLE l
Tags(e) ==
  IF e.base /\ ~Valid(e.f) THEN {<<"TOOL", "Formatter", "the formatter produced a layout that Mount.Valid rejects: " \o e.mut>>}
  ELSE IF e.r = "panic" THEN {<<"C15", "MountPanic", "open_volume panicked (" \o e.msg \o ") on: " \o e.mut>>}
  ELSE IF Valid(e.f) /\ e.r # "ok" THEN {<<"C15", "ValidRefused", "a well-formed layout was refused (" \o e.msg \o "): " \o e.mut>>}
  ELSE IF Valid(e.f) /\ e.r = "ok" /\ e.benign /\ ~e.same THEN {<<"C15", "WrongLayout", "mounted, but the files the formatter placed are not found: " \o e.mut>>}
  ELSE IF Valid(e.f) /\ e.r = "ok" /\ e.benign /\ (e.geo.fatStart # Layout(e.f).fatStart \/ e.geo.dataStart # Layout(e.f).dataStart \/ e.geo.count # Layout(e.f).count)
       THEN {<<"TOOL", "Formatter", "the formatter's geometry differs from Mount.Layout">>}
  ELSE {}
Next == /\ l <= Len(Rec)
        /\ LET t == Tags(Rec[l]) IN IF t = {} THEN TRUE ELSE PrintT(<<"VIOL", "mount", l, t>>)
        /\ l' = l + 1
Done == l = Len(Rec) + 1 /\ PrintT(<<"DONE", Len(Rec), 0>>) /\ UNCHANGED l
Spec == l = 1 /\ [][Next \/ Done]_l
=============================================================================
