SPECIFICATION Spec
CONSTANT W = 16
INVARIANT TypeOK
CHECK_DEADLOCK FALSE
