------------------------------- MODULE FatImpl -------------------------------
(***************************************************************************)
(* Layer C: the allocation / directory / truncation / deletion / mkdir      *)
(* algorithms the way src/fat/volume.rs and src/volume_mgr.rs perform them, *)
(* one step per device write, on a volume of a few clusters.  TLC visits    *)
(* every history, every crash point (Crash is enabled between any two       *)
(* device writes) and checks                                                *)
(*   - CrashSafe in every state (C10), Durable for flushed files (C09),     *)
(*   - WellFormed, SpaceExact and FatCopiesEqual whenever a call has        *)
(*     returned (C03, C05, C16).                                            *)
(* The search for a free cluster, the order of the FAT / directory writes   *)
(* and the hint handling are transcriptions (call sites in comments).  The  *)
(* constants Bug* re-introduce the defects that were repaired in /repo, to  *)
(* show that this model exhibits them at design level (MCImplBug*.cfg).     *)
(* Behaviours of this model are replayed on the real code (tours).          *)
(***************************************************************************)
EXTENDS Integers, Sequences, FiniteSets, TLC

CONSTANTS N,        \* valid clusters are 2..N+1
          EPS,      \* FAT entries per FAT sector (slack entries behind N+1 exist up to the sector end)
          NF,       \* FAT copies
          ROOT16,   \* TRUE: fixed root region of RS slots (FAT16); FALSE: the root is a cluster chain from cluster 2 (FAT32)
          RS, SPC,  \* slots in the fixed root / slots per directory cluster
          Names, MaxLen, MaxOpen,
          BugF1, BugF2, BugF3, BugF9, BugF18,  \* the repaired defects, switchable
          CntChoices, HintChoices,             \* FAT32: what the information sector may hold at the first mount (-1 / 0 = unknown; exact, stale, out of range)
          BugF15,                              \* truncation counts one freed cluster too few
          InfoModel                            \* FALSE: the information sector is left out (no record is written, no re-mount): the plain configurations

End == N + 2                                   \* first invalid cluster number
L == ((End + EPS - 1) \div EPS) * EPS          \* FAT entries that exist on the medium (incl. slack)
Free == 0
EOC == -1
\* a cluster whose content is whatever was there before (a one-slot pseudo block, so that it compares with blocks)
Stale == <<[k |-> "stale", n |-> "", c |-> 0, s |-> 0]>>

EndSlot == [k |-> "end", n |-> "", c |-> 0, s |-> 0]
DelSlot == [k |-> "del", n |-> "", c |-> 0, s |-> 0]

VARIABLES
  fat, fat2,   \* [2..L-1 -> Free | EOC | cluster]
  blk,         \* directory blocks: [block id -> Seq(slot)] ; block id 0 or a cluster number; Stale = not initialised
  hint,        \* in-memory next-free hint (0 = unknown)                      volume.rs next_free_cluster
  ofiles,      \* open files: Seq([n, b, i, c, len, dirty])                   volume_mgr.rs open_files
  plan,        \* device writes still to be issued by the call in flight
  after,       \* in-memory state to install when the plan has been issued: [hint, ofiles]
  flushed,     \* history variable (C09): [name -> [c, len]] as of the last successful flush/close, until next modified
  crashed,     \* a crash happened in this behaviour (space/copy equalities are only claimed for crash-free behaviours)
  lastOp,      \* label for tours / replay (hidden by the VIEW of the checking configurations)
  cnt,         \* in-memory free-cluster count (-1 = unknown; always -1 on FAT16)   volume.rs free_clusters_count
  info,        \* the FAT32 information sector on the medium: [cnt, hint]
  acct         \* history variable (C16): [c0 count at mount, f0 clusters really free at mount, sat: a decrement met 0, missed: an
               \*  allocation failed although a cluster was free, wr: the record was written since the last change]

vars == <<fat, fat2, blk, hint, ofiles, plan, after, flushed, crashed, lastOp, cnt, info, acct>>
view == <<fat, fat2, blk, hint, ofiles, plan, after, flushed, crashed, cnt, info, acct>>

Clusters == 2..(N + 1)
FreeNow == Cardinality({c \in Clusters : fat[c] = Free})
RootBlocks == IF ROOT16 THEN <<0>> ELSE <<>>

\* ------------------------------------------------------------------ reading the medium
RECURSIVE ChainR(_, _, _, _)
ChainR(F, c, acc, fuel) ==
  IF c \notin Clusters \/ fuel = 0 \/ c \in {acc[i] : i \in 1..Len(acc)} THEN [ok |-> FALSE, cl |-> acc]
  ELSE IF F[c] = EOC THEN [ok |-> TRUE, cl |-> Append(acc, c)]
  ELSE IF F[c] = Free THEN [ok |-> FALSE, cl |-> Append(acc, c)]
  ELSE ChainR(F, F[c], Append(acc, c), fuel - 1)
Chain(F, c) == ChainR(F, c, <<>>, N + 1)

RootChainBlocks(F) == IF ROOT16 THEN <<0>> ELSE Chain(F, 2).cl
BlkOf(B, b) == IF b \in DOMAIN B THEN B[b] ELSE Stale
\* slots of the root directory before the end marker, with positions; a stale block shows as garbage
RECURSIVE WalkR(_, _, _)
WalkR(B, bs, i) ==
  IF i > Len(bs) THEN <<>>
  ELSE LET s == BlkOf(B, bs[i]) IN
       IF s = Stale THEN <<[b |-> bs[i], i |-> 0, sl |-> [k |-> "garbage", n |-> "", c |-> 0, s |-> 0]]>>
       ELSE LET fe == IF \E j \in 1..Len(s) : s[j].k = "end" THEN CHOOSE j \in 1..Len(s) : s[j].k = "end" /\ \A m \in 1..(j - 1) : s[m].k # "end" ELSE 0
                upto == IF fe = 0 THEN Len(s) ELSE fe - 1
                here == [j \in 1..upto |-> [b |-> bs[i], i |-> j, sl |-> s[j]]]
            IN IF fe # 0 THEN here ELSE here \o WalkR(B, bs, i + 1)
RootSlots(F, B) == WalkR(B, RootChainBlocks(F), 1)
Live(F, B) == SelectSeq(RootSlots(F, B), LAMBDA e : e.sl.k \in {"file", "dir"})
LookupIdx(F, B, n) == LET l == Live(F, B) IN IF \E i \in 1..Len(l) : l[i].sl.n = n THEN CHOOSE i \in 1..Len(l) : l[i].sl.n = n /\ \A j \in 1..(i - 1) : l[j].sl.n # n ELSE 0

\* ------------------------------------------------------------------ find_next_free_cluster / alloc_cluster  (volume.rs 1023-1181)
\* the search runs sector by sector; inside a sector it scans to the sector end (BugF1: without looking at the limit)
FirstFreeFrom(F, start) ==
  LET cand == {c \in start..(L - 1) : F[c] = Free /\ (BugF1 \/ c < End) /\ (c < End \/ (c \div EPS) = ((End - 1) \div EPS))}
  IN IF start >= End \/ cand = {} THEN 0 ELSE CHOOSE c \in cand : \A d \in cand : c <= d
SetF(F, c, v) == [F EXCEPT ![c] = v]
\* result: [ok, c, ws, hint, F]  ws = the FAT writes (each goes to both copies), zeroing in between
Alloc(F, h, prev, zero) ==
  LET start == IF h # 0 /\ h < End THEN h ELSE 2
      n1 == FirstFreeFrom(F, start)
      new == IF n1 # 0 THEN n1 ELSE IF start > 2 THEN FirstFreeFrom(F, 2) ELSE 0
  IN IF new = 0 THEN [ok |-> FALSE, c |-> 0, ws |-> <<>>, hint |-> h, F |-> F, took |-> 0, missed |-> \E c \in Clusters : F[c] = Free]
     ELSE LET F1 == SetF(F, new, EOC)
              F2 == IF prev # 0 THEN SetF(F1, prev, new) ELSE F1
              wEoc == <<[t |-> "fat", c |-> new, v |-> EOC]>>
              wZero == IF zero THEN <<[t |-> "zero", c |-> new]>> ELSE <<>>
              wLink == IF prev # 0 THEN <<[t |-> "fat", c |-> prev, v |-> new]>> ELSE <<>>
              ws == IF BugF18 THEN wEoc \o wLink \o wZero ELSE wEoc \o wZero \o wLink      \* zero before linking (fix F18)
              r1 == FirstFreeFrom(F2, new)
              r2 == IF r1 # 0 THEN r1 ELSE IF new > 2 THEN FirstFreeFrom(F2, 2) ELSE 0
          IN IF r2 = 0 /\ BugF2 THEN [ok |-> FALSE, c |-> new, ws |-> ws, hint |-> h, F |-> F2, took |-> 0, missed |-> FALSE]   \* error after the writes
             ELSE [ok |-> TRUE, c |-> new, ws |-> ws, hint |-> r2, F |-> F2, took |-> 1, missed |-> FALSE]

\* truncate_cluster_chain (volume.rs 1184-1228): keep `c`, free everything behind it
RECURSIVE FreeFrom(_, _, _)
FreeFrom(F, c, fuel) == IF c \notin Clusters \/ fuel = 0 \/ F[c] = Free THEN <<>>
                        ELSE <<[t |-> "fat", c |-> c, v |-> Free]>> \o (IF F[c] = EOC THEN <<>> ELSE FreeFrom(F, F[c], fuel - 1))
Truncate(F, h, c) ==   \* [ws, hint, freed]
  IF c < 2 \/ F[c] = EOC \/ F[c] = Free THEN [ws |-> <<>>, hint |-> h, freed |-> 0]
  ELSE [ws |-> <<[t |-> "fat", c |-> c, v |-> EOC]>> \o FreeFrom(F, F[c], N),
        hint |-> IF h = 0 \/ h > F[c] THEN F[c] ELSE h,
        freed |-> Len(FreeFrom(F, F[c], N)) - (IF BugF15 THEN 1 ELSE 0)]

\* write_new_directory_entry (volume.rs 393-538): first free slot, growing the directory if it has none
FreeSlotPos(F, B) ==
  LET bs == RootChainBlocks(F)
      cands == {<<i, j>> \in (1..Len(bs)) \X (1..(IF ROOT16 THEN RS ELSE SPC)) : BlkOf(B, bs[i]) # Stale /\ BlkOf(B, bs[i])[j].k \in {"end", "del"}}
  IN IF cands = {} THEN <<0, 0>> ELSE CHOOSE p \in cands : \A q \in cands : p[1] < q[1] \/ (p[1] = q[1] /\ p[2] <= q[2])
NewEntry(F, B, h, sl) ==   \* [ok, ws, hint, b, i]
  LET p == FreeSlotPos(F, B)  bs == RootChainBlocks(F) IN
  IF p # <<0, 0>> THEN [ok |-> TRUE, ws |-> <<[t |-> "slot", b |-> bs[p[1]], i |-> p[2], sl |-> sl]>>, hint |-> h, b |-> bs[p[1]], i |-> p[2], took |-> 0, missed |-> FALSE]
  ELSE IF ROOT16 THEN [ok |-> FALSE, ws |-> <<>>, hint |-> h, b |-> 0, i |-> 0, took |-> 0, missed |-> FALSE]
  ELSE LET a == Alloc(F, h, bs[Len(bs)], TRUE) IN
       IF ~a.ok THEN [ok |-> FALSE, ws |-> a.ws, hint |-> a.hint, b |-> 0, i |-> 0, took |-> 0, missed |-> a.missed]
       ELSE [ok |-> TRUE, ws |-> a.ws \o <<[t |-> "slot", b |-> a.c, i |-> 1, sl |-> sl]>>, hint |-> a.hint, b |-> a.c, i |-> 1, took |-> 1, missed |-> FALSE]

\* ------------------------------------------------------------------ applying one device write
ZeroBlock == [j \in 1..SPC |-> EndSlot]
ApplyFat(F, w) == IF w.t = "fat" THEN SetF(F, w.c, w.v) ELSE F
ApplyBlk(B, w) ==
  CASE w.t = "slot" -> [B EXCEPT ![w.b] = [@ EXCEPT ![w.i] = w.sl]]
    [] w.t = "zero" -> [x \in DOMAIN B \cup {w.c} |-> IF x = w.c THEN ZeroBlock ELSE B[x]]
    [] w.t = "dots" -> [x \in DOMAIN B \cup {w.c} |-> IF x = w.c THEN ZeroBlock ELSE B[x]]      \* "." and ".." are not entered: an initialised block
    [] OTHER -> B
\* a fat write goes to the first copy, then (NF = 2) to the second: two device writes
RECURSIVE ExpandR(_)
ExpandR(ws) == IF ws = <<>> THEN <<>>
               ELSE IF Head(ws).t = "fat" THEN <<Head(ws), [Head(ws) EXCEPT !.t = "fat2"]>> \o ExpandR(Tail(ws))
               ELSE <<Head(ws)>> \o ExpandR(Tail(ws))
Expand(ws) == IF NF = 1 THEN ws ELSE ExpandR(ws)

Init ==
  /\ fat = [c \in 2..(L - 1) |-> IF ~ROOT16 /\ c = 2 THEN EOC ELSE Free]
  /\ fat2 = fat
  /\ blk = IF ROOT16 THEN [b \in {0} |-> [j \in 1..RS |-> EndSlot]] ELSE [b \in {2} |-> ZeroBlock]
  /\ ofiles = <<>> /\ plan = <<>>
  /\ flushed = [n \in {} |-> 0] /\ crashed = FALSE /\ lastOp = <<"init">>
  \* mounting reads the information sector (FAT32): whatever it holds becomes the in-memory count and hint
  /\ \E c0 \in (IF ROOT16 THEN {-1} ELSE CntChoices), h0 \in (IF ROOT16 THEN {0} ELSE HintChoices) :
       /\ info = [cnt |-> c0, hint |-> h0] /\ cnt = c0 /\ hint = h0
       /\ acct = [c0 |-> c0, f0 |-> IF ROOT16 THEN N ELSE N - 1, sat |-> FALSE, missed |-> FALSE, wr |-> TRUE]
       /\ after = [hint |-> h0, ofiles |-> <<>>, fl |-> <<>>, cnt |-> c0, acct |-> [c0 |-> c0, f0 |-> IF ROOT16 THEN N ELSE N - 1, sat |-> FALSE, missed |-> FALSE, wr |-> TRUE]]

Idle == plan = <<>>
\* the in-memory count follows the allocations (saturating at 0: the stored value may be stale) and the frees
RECURSIVE CountAfter(_, _)
CountAfter(c, steps) == IF steps = <<>> \/ c = -1 THEN c
                        ELSE CountAfter(IF Head(steps) < 0 THEN (IF c = 0 THEN 0 ELSE c - 1) ELSE c + Head(steps), Tail(steps))
RECURSIVE SatIn(_, _)
SatIn(c, steps) == IF steps = <<>> \/ c = -1 THEN FALSE
                   ELSE (Head(steps) < 0 /\ c = 0) \/ SatIn(IF Head(steps) < 0 THEN (IF c = 0 THEN 0 ELSE c - 1) ELSE c + Head(steps), Tail(steps))
\* steps: the count changes of the call in order (-1 per allocation, +k per k clusters freed); ms: an allocation missed a free cluster
StartC(ws, h, of, label, steps, ms) ==
  LET c2 == CountAfter(cnt, steps)
      a2 == [acct EXCEPT !.sat = @ \/ SatIn(cnt, steps), !.missed = @ \/ ms,
                         !.wr = IF ~InfoModel \/ (steps = <<>> /\ h = hint) THEN @ ELSE FALSE]
  IN /\ plan' = Expand(ws) /\ after' = [hint |-> h, ofiles |-> of, fl |-> <<>>, cnt |-> c2, acct |-> a2] /\ lastOp' = label
     /\ IF Expand(ws) = <<>> THEN hint' = h /\ ofiles' = of /\ cnt' = c2 /\ acct' = a2 ELSE UNCHANGED <<hint, ofiles, cnt, acct>>
     /\ UNCHANGED <<fat, fat2, blk, crashed, info>>
Start(ws, h, of, label) == StartC(ws, h, of, label, <<>>, FALSE)
\* (a flush after an earlier crash promises nothing: the volume may carry that crash's residue)
WithFlushed(fl) == IF crashed THEN flushed ELSE [x \in DOMAIN flushed \cup {fl[1]} |-> IF x = fl[1] THEN [c |-> fl[2], len |-> fl[3]] ELSE flushed[x]]

IsOpen(n) == \E i \in 1..Len(ofiles) : ofiles[i].n = n
\* update_info_sector (volume.rs 175-205): nothing on FAT16, nothing when neither value is known; a known value overwrites the stored one
InfoWrite == IF ROOT16 \/ ~InfoModel \/ (cnt = -1 /\ hint = 0) THEN <<>> ELSE <<[t |-> "info", cnt |-> cnt, hint |-> hint]>>
Unflush(n) == [x \in DOMAIN flushed \ {n} |-> flushed[x]]

\* open_file_in_dir, create (volume_mgr.rs 536-571)
Create(n) ==
  /\ Idle /\ Len(ofiles) < MaxOpen /\ LookupIdx(fat, blk, n) = 0
  /\ LET e == NewEntry(fat, blk, hint, [k |-> "file", n |-> n, c |-> 0, s |-> 0]) IN
     StartC(e.ws, e.hint, IF e.ok THEN Append(ofiles, [n |-> n, b |-> e.b, i |-> e.i, c |-> 0, len |-> 0, dirty |-> FALSE]) ELSE ofiles,
            <<"create", n, e.ok>>, IF e.took = 1 THEN <<-1>> ELSE <<>>, e.missed)
  /\ flushed' = flushed

\* open an existing file (no device write)
Open(n) ==
  /\ Idle /\ Len(ofiles) < MaxOpen /\ ~IsOpen(n) /\ LookupIdx(fat, blk, n) # 0
  /\ LET e == Live(fat, blk)[LookupIdx(fat, blk, n)] IN
     /\ e.sl.k = "file"
     /\ Start(<<>>, hint, Append(ofiles, [n |-> n, b |-> e.b, i |-> e.i, c |-> e.sl.c, len |-> e.sl.s, dirty |-> FALSE]), <<"open", n>>)
  /\ flushed' = flushed

\* open with truncation (volume_mgr.rs 625-652): rewrite the entry with length 0, then cut the chain (in this order since
\* the repair of F30: a failure in between leaves an empty file with too many clusters, not a file longer than its chain)
OpenTrunc(n) ==
  /\ Idle /\ Len(ofiles) < MaxOpen /\ ~IsOpen(n) /\ LookupIdx(fat, blk, n) # 0
  /\ LET e == Live(fat, blk)[LookupIdx(fat, blk, n)]
         t == Truncate(fat, hint, e.sl.c)
     IN /\ e.sl.k = "file"
        /\ StartC(<<[t |-> "slot", b |-> e.b, i |-> e.i, sl |-> [e.sl EXCEPT !.s = 0]]>> \o t.ws, t.hint,
                  Append(ofiles, [n |-> n, b |-> e.b, i |-> e.i, c |-> e.sl.c, len |-> 0, dirty |-> FALSE]), <<"opentrunc", n>>,
                  IF t.freed > 0 THEN <<t.freed>> ELSE <<>>, FALSE)
  /\ flushed' = Unflush(n)

\* write extending the file by one cluster (volume_mgr.rs 781-912; data writes are not modelled here)
Extend(fi) ==
  /\ Idle /\ fi \in 1..Len(ofiles) /\ ofiles[fi].len < MaxLen
  /\ LET f == ofiles[fi]
         tail == IF f.c = 0 THEN 0 ELSE LET ch == Chain(fat, f.c).cl IN ch[Len(ch)]
         room == f.c # 0 /\ Len(Chain(fat, f.c).cl) > f.len        \* the chain already has a cluster for it (after truncation)
         a == Alloc(fat, hint, tail, FALSE)
     IN IF room THEN Start(<<>>, hint, [ofiles EXCEPT ![fi].len = @ + 1, ![fi].dirty = TRUE], <<"extend", f.n, TRUE>>)
        ELSE StartC(a.ws, a.hint, IF a.ok THEN [ofiles EXCEPT ![fi].len = @ + 1, ![fi].dirty = TRUE, ![fi].c = IF f.c = 0 THEN a.c ELSE f.c]
                                   ELSE [ofiles EXCEPT ![fi].dirty = TRUE], <<"extend", f.n, a.ok>>, IF a.took = 1 THEN <<-1>> ELSE <<>>, a.missed)
  /\ flushed' = Unflush(ofiles[fi].n)

\* flush_file / close_file (volume_mgr.rs 915-949): the entry becomes the in-memory one
FlushOrClose(fi, close) ==
  /\ Idle /\ fi \in 1..Len(ofiles)
  /\ LET f == ofiles[fi]
         of2 == IF close THEN [j \in 1..(Len(ofiles) - 1) |-> IF j < fi THEN ofiles[j] ELSE ofiles[j + 1]] ELSE ofiles
         \* a dirty file: the information sector (FAT32, if anything is known), then the entry   (volume_mgr.rs 934-948)
         ws == IF f.dirty THEN InfoWrite \o <<[t |-> "slot", b |-> f.b, i |-> f.i, sl |-> [k |-> "file", n |-> f.n, c |-> f.c, s |-> f.len]]>> ELSE <<>>
         fl == <<f.n, f.c, f.len>>
         a2 == IF f.dirty /\ InfoWrite # <<>> THEN [acct EXCEPT !.wr = TRUE] ELSE acct
     IN \* the durability promise starts when the call has returned: with the last device write
        /\ plan' = Expand(ws) /\ after' = [hint |-> hint, ofiles |-> of2, fl |-> fl, cnt |-> cnt, acct |-> a2] /\ lastOp' = <<IF close THEN "close" ELSE "flush", f.n>>
        /\ IF ws = <<>> THEN ofiles' = of2 /\ flushed' = WithFlushed(fl) ELSE UNCHANGED <<ofiles, flushed>>
        /\ UNCHANGED <<fat, fat2, blk, crashed, hint, cnt, info, acct>>

\* delete_file_in_dir (volume_mgr.rs 656-692, volume.rs free_cluster_chain): entry first, then the chain
Delete(n) ==
  /\ Idle /\ ~IsOpen(n) /\ LookupIdx(fat, blk, n) # 0
  /\ LET e == Live(fat, blk)[LookupIdx(fat, blk, n)]
         t == Truncate(fat, hint, e.sl.c)
         freeFirst == IF e.sl.c >= 2 THEN <<[t |-> "fat", c |-> e.sl.c, v |-> Free]>> ELSE <<>>
         h2 == IF e.sl.c >= 2 /\ (t.hint = 0 \/ t.hint > e.sl.c) THEN e.sl.c ELSE t.hint
     IN /\ e.sl.k = "file"
        /\ StartC(<<[t |-> "slot", b |-> e.b, i |-> e.i, sl |-> DelSlot]>> \o (IF BugF3 THEN <<>> ELSE t.ws \o freeFirst), IF BugF3 THEN hint ELSE h2, ofiles, <<"delete", n>>,
                  IF BugF3 \/ e.sl.c < 2 THEN <<>> ELSE (IF t.freed > 0 THEN <<t.freed>> ELSE <<>>) \o <<1>>, FALSE)
  /\ flushed' = Unflush(n)

\* make_dir (volume.rs 1261-...): cluster, contents, then the entry in the parent (fix F9); on failure the cluster is freed
MkDir(n) ==
  /\ ~BugF9 /\ Idle /\ LookupIdx(fat, blk, n) = 0
  /\ LET a == Alloc(fat, hint, 0, FALSE) IN
     IF ~a.ok THEN StartC(a.ws, a.hint, ofiles, <<"mkdir", n, FALSE>>, <<>>, a.missed)
     ELSE LET e == NewEntry(a.F, blk, a.hint, [k |-> "dir", n |-> n, c |-> a.c, s |-> 0]) IN
          IF e.ok THEN StartC(a.ws \o <<[t |-> "dots", c |-> a.c]>> \o e.ws, e.hint, ofiles, <<"mkdir", n, TRUE>>, IF e.took = 1 THEN <<-1, -1>> ELSE <<-1>>, FALSE)
          ELSE StartC(a.ws \o <<[t |-> "dots", c |-> a.c]>> \o e.ws \o <<[t |-> "fat", c |-> a.c, v |-> Free]>>,
                      IF e.hint = 0 \/ e.hint > a.c THEN a.c ELSE e.hint, ofiles, <<"mkdir", n, FALSE>>, <<-1, 1>>, e.missed)
  /\ flushed' = flushed

\* the order make_dir had before the repair: parent entry (no cluster), allocation, parent entry again, contents
MkDirOld(n) ==
  /\ BugF9 /\ Idle /\ LookupIdx(fat, blk, n) = 0
  /\ LET e == NewEntry(fat, blk, hint, [k |-> "dir", n |-> n, c |-> 0, s |-> 0]) IN
     IF ~e.ok THEN Start(e.ws, e.hint, ofiles, <<"mkdir", n, FALSE>>)
     ELSE LET Fe == IF Len(e.ws) > 1 THEN Alloc(fat, hint, RootChainBlocks(fat)[Len(RootChainBlocks(fat))], TRUE).F ELSE fat
              a == Alloc(Fe, e.hint, 0, FALSE)
          IN IF ~a.ok THEN Start(e.ws \o a.ws, a.hint, ofiles, <<"mkdir", n, FALSE>>)
             ELSE Start(e.ws \o a.ws \o <<[t |-> "slot", b |-> e.b, i |-> e.i, sl |-> [k |-> "dir", n |-> n, c |-> a.c, s |-> 0]], [t |-> "dots", c |-> a.c]>>,
                        a.hint, ofiles, <<"mkdir", n, TRUE>>)
  /\ flushed' = flushed

\* one device write of the call in flight
Step ==
  /\ plan # <<>>
  /\ LET w == Head(plan) IN
     /\ fat' = IF w.t = "fat" THEN ApplyFat(fat, w) ELSE fat
     /\ fat2' = IF w.t = "fat2" THEN SetF(fat2, w.c, w.v) ELSE IF NF = 1 /\ w.t = "fat" THEN ApplyFat(fat2, w) ELSE fat2
     /\ blk' = ApplyBlk(blk, w)
     /\ info' = IF w.t = "info" THEN [cnt |-> IF w.cnt # -1 THEN w.cnt ELSE info.cnt, hint |-> IF w.hint # 0 THEN w.hint ELSE info.hint] ELSE info
  /\ plan' = Tail(plan)
  /\ IF Len(plan) = 1 THEN hint' = after.hint /\ ofiles' = after.ofiles /\ cnt' = after.cnt /\ acct' = after.acct ELSE UNCHANGED <<hint, ofiles, cnt, acct>>
  /\ lastOp' = <<"w">>
  /\ flushed' = IF Len(plan) = 1 /\ after.fl # <<>> THEN WithFlushed(after.fl) ELSE flushed
  /\ UNCHANGED <<after, crashed>>

\* power loss: the medium stays, memory is gone
Crash ==
  /\ plan' = <<>> /\ ofiles' = <<>> /\ crashed' = TRUE /\ lastOp' = <<"crash">>
  /\ hint' = info.hint /\ cnt' = info.cnt
  /\ acct' = IF InfoModel THEN [c0 |-> info.cnt, f0 |-> FreeNow, sat |-> FALSE, missed |-> acct.missed, wr |-> TRUE] ELSE acct
  /\ UNCHANGED <<fat, fat2, blk, after, flushed, info>>

\* close_volume (writes the information sector, volume_mgr.rs 336-362) and open_volume again: memory is rebuilt from the medium
Remount ==
  /\ Idle /\ ofiles = <<>> /\ ~ROOT16 /\ InfoModel
  /\ LET i2 == IF InfoWrite = <<>> THEN info ELSE [cnt |-> IF cnt # -1 THEN cnt ELSE info.cnt, hint |-> IF hint # 0 THEN hint ELSE info.hint] IN
     /\ info' = i2 /\ cnt' = i2.cnt /\ hint' = i2.hint
     /\ acct' = [c0 |-> i2.cnt, f0 |-> FreeNow, sat |-> FALSE, missed |-> acct.missed, wr |-> TRUE]
  /\ lastOp' = <<"remount">>
  /\ UNCHANGED <<fat, fat2, blk, ofiles, plan, after, flushed, crashed>>

Next ==
  \/ \E n \in Names : Create(n) \/ Open(n) \/ OpenTrunc(n) \/ Delete(n) \/ MkDir(n) \/ MkDirOld(n)
  \/ \E fi \in 1..MaxOpen : Extend(fi) \/ FlushOrClose(fi, FALSE) \/ FlushOrClose(fi, TRUE)
  \/ Step
  \/ Crash
  \/ Remount
Spec == Init /\ [][Next]_vars

\* ------------------------------------------------------------------ properties
LiveE == Live(fat, blk)
ChainOf(e) == Chain(fat, e.sl.c)
InUse == {c \in Clusters : fat[c] # Free}
Owned == (IF ROOT16 THEN {} ELSE {c \in Clusters : \E i \in 1..Len(Chain(fat, 2).cl) : Chain(fat, 2).cl[i] = c})
         \cup UNION {{ChainOf(LiveE[i]).cl[j] : j \in 1..Len(ChainOf(LiveE[i]).cl)} : i \in {k \in 1..Len(LiveE) : LiveE[k].sl.c # 0}}
PendingClusters == UNION {{Chain(fat, ofiles[i].c).cl[j] : j \in 1..Len(Chain(fat, ofiles[i].c).cl)} : i \in {k \in 1..Len(ofiles) : ofiles[k].c # 0}}

\* C10: in every state, also in the middle of a call and after a crash
CrashSafe ==
  /\ (~ROOT16 => Chain(fat, 2).ok)
  /\ \A i \in 1..Len(RootSlots(fat, blk)) : RootSlots(fat, blk)[i].sl.k # "garbage"            \* no stale cluster shows as directory content
  /\ \A i \in 1..Len(LiveE) : LET e == LiveE[i] IN
        /\ e.sl.c # 0 => e.sl.c \in Clusters /\ ChainOf(e).ok
        /\ e.sl.k = "dir" => e.sl.c \in Clusters /\ BlkOf(blk, e.sl.c) # Stale                  \* a sub-directory has a cluster of its own, initialised
        /\ e.sl.c = 0 => e.sl.s = 0
  /\ \A i, j \in 1..Len(LiveE) : i # j /\ LiveE[i].sl.c # 0 /\ LiveE[j].sl.c # 0 =>
        {ChainOf(LiveE[i]).cl[k] : k \in 1..Len(ChainOf(LiveE[i]).cl)} \cap {ChainOf(LiveE[j]).cl[k] : k \in 1..Len(ChainOf(LiveE[j]).cl)} = {}
  /\ \A c \in Clusters : fat[c] \notin {Free, EOC} => fat[c] \in Clusters                       \* nothing points outside the volume
\* C09: what was flushed is still there (entry, chain long enough), until the file is next modified
Durable == \A n \in DOMAIN flushed :
  LET i == LookupIdx(fat, blk, n) IN
  i # 0 /\ LiveE[i].sl.s >= flushed[n].len /\ (flushed[n].len > 0 => LiveE[i].sl.c = flushed[n].c /\ Len(ChainOf(LiveE[i]).cl) >= flushed[n].len)
\* C03 / C05 / C16: when a call has returned
Returned == plan = <<>>
WellFormed == Returned /\ ~crashed =>
  /\ \A i \in 1..Len(LiveE) : LiveE[i].sl.k = "file" /\ LiveE[i].sl.c # 0 => Len(ChainOf(LiveE[i]).cl) >= LiveE[i].sl.s
  /\ \A i, j \in 1..Len(LiveE) : i # j => LiveE[i].sl.n # LiveE[j].sl.n
SpaceExact == Returned /\ ~crashed => InUse \subseteq Owned \cup PendingClusters
NoInvented == \A c \in End..(L - 1) : fat[c] = Free                                              \* slack entries are never handed out (C04/C05)
FatCopiesEqual == Returned /\ ~crashed => fat = fat2
HintInRange == hint = 0 \/ hint \in Clusters \/ (~ROOT16 /\ hint \in HintChoices)     \* (a stale stored hint is kept until the first allocation)
\* C16, FAT32: the in-memory count moves by exactly what was freed and allocated since the mount (unless a stale count ran into 0)
\* (f0 and FreeNow are read from the FAT, not from the calls' own bookkeeping)
CountTracks == Returned /\ ~ROOT16 /\ cnt # -1 /\ ~acct.sat => cnt - acct.c0 = FreeNow - acct.f0
\* ... so a count that was right at the mount is right now
CountExact == Returned /\ ~ROOT16 /\ cnt # -1 /\ ~acct.sat /\ acct.c0 = acct.f0 => cnt = FreeNow
\* a wrong or stale record never makes an allocation fail while a cluster is free
NoMissedAllocation == ~acct.missed
\* after flush / close of a modified file and after close_volume the sector holds the in-memory values
RecordWritten == Returned /\ ~ROOT16 /\ acct.wr /\ lastOp[1] \in {"flush", "close", "remount"} => (cnt # -1 => info.cnt = cnt) /\ (hint # 0 => info.hint = hint)
=============================================================================
