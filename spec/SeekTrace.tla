------------------------------ MODULE SeekTrace ------------------------------
(* Seek vectors recorded from the real File API (files of every size up to 2^32 - 1) against Seek.tla (C01). *)
EXTENDS Seek, Json, IOUtils, TLC, Sequences
Rec == ndJsonDeserialize(IOEnv.TRACE)
VARIABLE l
P(x) == <<x[1], x[2]>>
V(tag, d) == {<<"C01", tag, d>>}
Tags(e) ==
  IF e.r = "panic" THEN V("SeekPanic", "seek_" \o e.kind \o " panicked: " \o e.msg)
  ELSE IF P(e.len) # P(e.size) THEN V("Length", "the reported length is not the size field of the entry")
  ELSE LET w == CASE e.kind = "start" -> SeekStart(P(e.size), P(e.off0), P(e.arg))
                  [] e.kind = "end" -> SeekEnd(P(e.size), P(e.off0), P(e.arg))
                  [] OTHER -> SeekCur(P(e.size), P(e.off0), P(e.arg))
       IN (IF w.ok # e.ok THEN V("SeekResult", "seek_" \o e.kind \o (IF e.ok THEN " accepted a target outside the file" ELSE " refused a target inside the file")) ELSE {})
          \cup (IF w.off # P(e.off1) THEN V("SeekOffset", "seek_" \o e.kind \o " left the offset somewhere else than the model") ELSE {})
Next == /\ l <= Len(Rec)
        /\ LET t == Tags(Rec[l]) IN IF t = {} THEN TRUE ELSE PrintT(<<"VIOL", "seek", l, t>>)
        /\ l' = l + 1
Done == l = Len(Rec) + 1 /\ PrintT(<<"DONE", Len(Rec), 0>>) /\ UNCHANGED l
Spec == l = 1 /\ [][Next \/ Done]_l
=============================================================================
