------------------------------ MODULE SeekTrace ------------------------------
(* Seek vectors recorded from the real File API (files of every size up to 2^32 - 1) against Seek.tla (C01). *)
EXTENDS Seek, Json, IOUtils, TLC, Sequences
Rec == ndJsonDeserialize(IOEnv.TRACE)
VARIABLE l
P(x) == <<x[1], x[2]>>
V(tag, d) == {<<"C01", tag, d>>}
BigTags(e) ==
  IF e.r = "panic" THEN V("BigPanic", e.ev \o " at the far end of a huge file panicked: " \o e.msg)
  ELSE IF e.ev = "BigRead" THEN
    LET w == ReadAt(P(e.size), P(e.off0), e.n) IN
      (IF ~e.ok THEN V("BigRead", "a read inside a huge file failed") ELSE {})
      \cup (IF e.ok /\ (Count(e.cnt) # w.cnt \/ P(e.off1) # w.off \/ e.eof # w.eof \/ P(e.len1) # P(e.size))
            THEN V("BigRead", "count, offset, length or end-of-file flag after a read at the far end of a huge file differ from the model") ELSE {})
  ELSE
    LET w == WriteAt(P(e.size), P(e.off0), e.n) IN
      \* whatever is reported as written has been written, all of it
      (IF e.ok /\ (~WriteFits(P(e.off0), e.n) \/ e.cnt # e.n \/ P(e.off1) # w.off \/ P(e.len1) # w.len)
       THEN V("BigWrite", "a write that does not fit below 2^32 - 1 bytes (or is not stored completely) is reported as done") ELSE {})
      \cup (IF ~e.ok /\ WriteFits(P(e.off0), e.n) THEN V("BigWrite", "a write that fits (free clusters, below 2^32 - 1 bytes) was refused") ELSE {})
      \* a refused write loses nothing: the file is at least as long as before, the offset inside it
      \cup (IF ~e.ok /\ (~Le(P(e.size), P(e.len1)) \/ ~Le(P(e.off1), P(e.len1))) THEN V("BigWrite", "a refused write shortened the file or left the offset outside it") ELSE {})
      \cup (IF e.closed /\ P(e.disk) # P(e.len1) THEN V("BigWrite", "the directory entry after close does not hold the length the file reported") ELSE {})
      \cup (IF ~e.closed THEN V("BigWrite", "closing the file failed") ELSE {})
Tags(e) ==
  IF e.ev # "Seek" THEN BigTags(e)
  ELSE IF e.r = "panic" THEN V("SeekPanic", "seek_" \o e.kind \o " panicked: " \o e.msg)
  ELSE IF P(e.len) # P(e.size) THEN V("Length", "the reported length is not the size field of the entry")
  ELSE LET w == CASE e.kind = "start" -> SeekStart(P(e.size), P(e.off0), P(e.arg))
                  [] e.kind = "end" -> SeekEnd(P(e.size), P(e.off0), P(e.arg))
                  [] OTHER -> SeekCur(P(e.size), P(e.off0), P(e.arg))
       IN (IF w.ok # e.ok THEN V("SeekResult", "seek_" \o e.kind \o (IF e.ok THEN " accepted a target outside the file" ELSE " refused a target inside the file")) ELSE {})
          \cup (IF w.off # P(e.off1) THEN V("SeekOffset", "seek_" \o e.kind \o " left the offset somewhere else than the model") ELSE {})
Next == /\ l <= Len(Rec)
        /\ LET t == Tags(Rec[l]) IN IF t = {} THEN TRUE ELSE PrintT(<<"VIOL", "seek", l, t>>)
        /\ l' = l + 1
Done == l = Len(Rec) + 1 /\ PrintT(<<"DONE", Len(Rec), 0>>) /\ UNCHANGED l
Spec == l = 1 /\ [][Next \/ Done]_l
=============================================================================
