SPECIFICATION MCSpec
CONSTANTS CntChoices <- CntUnknown
          N = 4  EPS = 4  NF = 1  ROOT16 = FALSE  RS = 2  SPC = 2  Names = {"a", "b", "c"}  MaxLen = 1  MaxOpen = 1
          BugF1 = FALSE BugF2 = FALSE BugF3 = FALSE BugF9 = FALSE BugF18 = TRUE BugF15 = FALSE InfoModel = FALSE HintChoices = {0}
INVARIANTS CrashSafe Durable WellFormed SpaceExact NoInvented FatCopiesEqual HintInRange
VIEW MCView
CHECK_DEADLOCK FALSE
