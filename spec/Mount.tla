------------------------------- MODULE Mount -------------------------------
(***************************************************************************)
(* Which partition-table entry + boot sector (+ FAT32 information sector)   *)
(* describe a FAT16/FAT32 volume this library documents support for, and    *)
(* where the FATs, the root directory and the data area then lie (C15).     *)
(* Fields are integers; a field that does not fit 31 bits is given as -1    *)
(* (no valid layout has one).                                               *)
(***************************************************************************)
EXTENDS Integers

FatSz(f)  == IF f.fatsz16 # 0 THEN f.fatsz16 ELSE f.fatsz32
Total(f)  == IF f.tot16 # 0 THEN f.tot16 ELSE f.tot32
RootBlks(f) == (f.rootent * 32 + 511) \div 512
NonData(f)  == f.resv + f.nfats * FatSz(f) + RootBlks(f)
Clusters(f) == (Total(f) - NonData(f)) \div f.spc

NoneBig(f) == \A k \in {"lba", "len", "bps", "spc", "resv", "nfats", "rootent", "tot16", "fatsz16", "tot32", "fatsz32", "fsver", "rootclus", "fsinfo"} : f[k] >= 0
SupportedTypes == {4, 6, 11, 12, 14}

\* the partition table is well-formed for the selected slot when no other used slot (type and length not 0) shares a
\* block with it; the others' numbers are pairs of 16-bit halves <<hi, lo>> and may lie anywhere in the 32-bit range
\* (only called when f.lba + f.len < 2^31)
Pv(p) == p[1] * 65536 + p[2]
SharesBlocks(f, o) ==
  /\ o.ptype # 0 /\ o.len # <<0, 0>> /\ f.len > 0
  /\ o.lba[1] < 32768 /\ Pv(o.lba) < f.lba + f.len                               \* it starts before this one ends
  /\ \/ Pv(o.lba) > f.lba                                                        \* and ends after this one starts
     \/ o.len[1] >= 32768
     \/ f.lba - Pv(o.lba) < Pv(o.len)
TableOK(f) == \A i \in DOMAIN f.others : ~SharesBlocks(f, f.others[i])

Valid(f) ==
  /\ NoneBig(f)
  /\ f.mbrsig /\ f.pstat \in {0, 128} /\ f.ptype \in SupportedTypes
  /\ f.bpbsig /\ f.bps = 512 /\ f.spc \in {1, 2, 4, 8, 16, 32, 64, 128}
  /\ f.resv >= 1 /\ f.nfats \in {1, 2} /\ FatSz(f) >= 1
  /\ FatSz(f) < 4194304 /\ Total(f) < 1073741824               \* keeps the arithmetic below 2^31
  /\ Total(f) > NonData(f) /\ Total(f) <= f.len
  /\ f.lba >= 1 /\ f.lba + f.len < 2147483647
  /\ TableOK(f)
  /\ IF Clusters(f) < 4085 THEN FALSE                          \* FAT12: not supported
     ELSE IF Clusters(f) < 65525
     \* (a root entry count that does not fill its last block is unusual but well-formed: the specification's
     \*  formula for the root directory's size rounds up)
     THEN f.fatsz16 # 0 /\ f.rootent > 0 /\ FatSz(f) * 256 >= Clusters(f) + 2
     ELSE /\ f.fatsz16 = 0 /\ f.rootent = 0 /\ f.fsver = 0
          /\ f.rootclus >= 2 /\ f.rootclus < Clusters(f) + 2
          /\ f.fsinfo >= 1 /\ f.fsinfo < f.resv /\ f.infosig
          /\ FatSz(f) * 128 >= Clusters(f) + 2

\* the layout of a valid volume (absolute block numbers)
Layout(f) == [fat32 |-> Clusters(f) >= 65525, fatStart |-> f.lba + f.resv, fatLen |-> FatSz(f),
              rootStart |-> f.lba + f.resv + f.nfats * FatSz(f), rootBlocks |-> RootBlks(f),
              dataStart |-> f.lba + NonData(f), count |-> Clusters(f)]
=============================================================================
