SPECIFICATION SSpec
CHECK_DEADLOCK FALSE
POSTCONDITION Post
