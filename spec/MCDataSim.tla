----------------------------- MODULE MCDataSim -----------------------------
(* Behaviours of FatData for replay on the real implementation: the calls of each behaviour with the
   offset and length the model's file has afterwards. *)
EXTENDS FatData
VARIABLE hist
SimInit == Init /\ hist = <<>>
SimNext == Next /\ hist' = Append(hist, <<lastOp', off', len', res'.k>>)
Emit == nops = MaxOps => PrintT(<<"REPLAY", hist>>)
=============================================================================
