-------------------------------- MODULE Sfn --------------------------------
(***************************************************************************)
(* The 8.3 short-file-name rules over ISO-8859-1, on sequences of Unicode   *)
(* code points: which strings are valid names, and the 11 space-padded,     *)
(* upper-cased bytes they encode to.                                        *)
(***************************************************************************)
EXTENDS Integers, Sequences, FiniteSets

Dot == 46
Space == 32
\* " * + , / : ; < = > ? [ \ ] |   (the dot separates, the space is refused too)
Forbidden == {34, 42, 43, 44, 47, 58, 59, 60, 61, 62, 63, 91, 92, 93, 124}
CharOK(c) == c >= 33 /\ c <= 255 /\ c \notin Forbidden /\ c # Dot
Upper(c) == IF c >= 97 /\ c <= 122 THEN c - 32 ELSE c
\* Latin-1 letters may be stored in either case (interpretation decision 6)
SameModLatinCase(stored, c) ==
  stored = Upper(c) \/ (c >= 224 /\ c <= 254 /\ c # 247 /\ stored = c - 32)

DotPositions(cs) == {i \in 1..Len(cs) : cs[i] = Dot}
Pad(cs, n) == [i \in 1..n |-> IF i <= Len(cs) THEN cs[i] ELSE Space]

IsDotName(cs) == cs = <<>> \/ cs = <<Dot>> \/ cs = <<Dot, Dot>>
DotBytes(cs) == IF cs = <<Dot, Dot>> THEN <<Dot, Dot>> \o [i \in 1..9 |-> Space] ELSE <<Dot>> \o [i \in 1..10 |-> Space]

\* base and extension of an ordinary name
Base(cs) == IF DotPositions(cs) = {} THEN cs ELSE SubSeq(cs, 1, (CHOOSE i \in DotPositions(cs) : TRUE) - 1)
Ext(cs)  == IF DotPositions(cs) = {} THEN <<>> ELSE SubSeq(cs, (CHOOSE i \in DotPositions(cs) : TRUE) + 1, Len(cs))

Valid(cs) ==
  \/ IsDotName(cs)
  \/ /\ Cardinality(DotPositions(cs)) <= 1
     /\ Len(Base(cs)) \in 1..8 /\ Len(Ext(cs)) \in 0..3
     /\ \A i \in 1..Len(cs) : cs[i] = Dot \/ CharOK(cs[i])

\* a single trailing dot ("NAME.") is stripped by some systems and refused by others: don't-care
DontCare(cs) == ~IsDotName(cs) /\ Len(cs) >= 2 /\ cs[Len(cs)] = Dot /\ Cardinality(DotPositions(cs)) = 1

\* the 11 bytes, before case folding of Latin-1 letters
Encode(cs) == IF IsDotName(cs) THEN DotBytes(cs) ELSE Pad(Base(cs), 8) \o Pad(Ext(cs), 3)
Matches(bytes, cs) == LET e == Encode(cs) IN Len(bytes) = 11 /\ \A i \in 1..11 : SameModLatinCase(bytes[i], e[i])
=============================================================================
