------------------------------ MODULE FatTrace ------------------------------
(***************************************************************************)
(* Trace validation (permissive mode, the alarm-raising mode): every event  *)
(* recorded from the real VolumeManager over the logging block device is    *)
(* one step.  A device write is applied as logged; what is demanded is      *)
(*   - WriteLegal for that write given the call in flight          (C04)   *)
(*   - CrashSafe / Durable of the medium after it                (C10/C09) *)
(*   - at Return: the result is admissible for the FatApi action, the       *)
(*     medium abstracts to the FatApi post-state (Refines), WellFormed,     *)
(*     FAT copies equal, free-space record truthful, observers of every     *)
(*     open file equal the model                (C01-C03,C05-C08,C16)       *)
(*   - a fresh mount by the library itself (Remount/CrashMount events)      *)
(*     agrees with the specification's reading of the medium                *)
(* Violations never block the trace: they are printed as                    *)
(*    <<"VIOL", history, line, property, tag, detail>>                      *)
(* and, when they desynchronise model and implementation, the rest of that  *)
(* history is skipped (dead) until the next Reset.                          *)
(***************************************************************************)
EXTENDS FatApi, FatInv, Lfn, Json, IOUtils, TLC

Rec == ndJsonDeserialize(IOEnv.TRACE)

VARIABLES
  l,      \* next line of the trace
  hid,    \* id of the current history
  disk,   \* [vol -> volume-disk record]  (vol = 1..nvol)
  disk0,  \* the media at Reset
  pre,    \* the media when the call in flight started
  call,   \* the call in flight: [op, a, clk, vol] or NoCall
  dur,    \* [vol -> set of durable records [dir, n, len, data]]
  minfo,  \* [vol -> [f, n, free]]   info-sector values and free count seen at mount
  flt,    \* a device fault happened inside the call in flight
  fltd,   \* a device fault or crash happened in this history (C05/C16 quantify over fault-free ones)
  dead,   \* model and implementation desynchronised: skip until next Reset
  lenient, \* the image is deliberately malformed (C17 listing robustness): only results are checked, not the structure
  wfseen, \* structural defects already reported in this history (a leak persists: report it once)
  viol    \* set of <<line, property, tag>>

tvars == <<l, hid, disk, disk0, pre, call, dur, minfo, flt, fltd, dead, lenient, wfseen, viol, dirs, ovols, odirs, ofiles, lim>>

NoCall == [op |-> "none"]
IsEv(k) == l <= Len(Rec) /\ Rec[l].ev = k

\* ------------------------------------------------------------------ building the state
FnOfSeq(s, key) ==
  [x \in {s[i][key] : i \in 1..Len(s)} |-> s[CHOOSE i \in 1..Len(s) : s[i][key] = x]]
FatFn(s) == LET f == FnOfSeq(s, "c") IN [c \in DOMAIN f |-> [v |-> f[c].v, hi |-> f[c].hi]]
BlkFn(s) == LET f == FnOfSeq(s, "b") IN [b \in DOMAIN f |-> [w |-> f[b].w, s |-> f[b].s, u |-> f[b].u]]
MkDisk(v, upb) ==
  [g |-> [x \in DOMAIN v.g \cup {"upb"} |-> IF x = "upb" THEN upb ELSE v.g[x]],
   fat1 |-> FatFn(v.fat1),
   fat2 |-> IF Len(v.fat2) = 0 THEN <<>> ELSE FatFn(v.fat2),
   blk |-> BlkFn(v.blks), info |-> v.info, restok |-> v.restok]
Merge(old, new) == [x \in DOMAIN old |-> IF x \in DOMAIN new THEN new[x] ELSE old[x]]

ApplyW(d, e) ==
  CASE e.reg = "fat1" -> [d EXCEPT !.fat1 = Merge(@, FatFn(e.fat)), !.restok = @ /\ e.restok,
                                    !.blk = IF Len(e.up) = 0 THEN @ ELSE Merge(@, BlkFn(e.up))]
    [] e.reg = "fat2" -> [d EXCEPT !.fat2 = Merge(@, FatFn(e.fat)), !.restok = @ /\ e.restok]
    [] e.reg \in {"root", "data"} /\ e.trk -> [d EXCEPT !.blk = Merge(@, BlkFn(e.up))]
    [] e.reg = "info" -> [d EXCEPT !.info = e.info]
    [] OTHER -> d

\* the model's view of what is stored: data of an entry is visible up to its recorded length
DiskViewL(lst) == [i \in 1..Len(lst) |->
   [lst[i] EXCEPT !.data = IF lst[i].len > 0 THEN SubSeq(lst[i].data, 1, Min2(lst[i].len, Len(lst[i].data))) ELSE <<>>]]
DiskView(dv) == [id \in DOMAIN dv |-> DiskViewL(dv[id])]

\* diagnostics: where two trees differ
TreeDiff(a, m) ==
  IF DOMAIN a # DOMAIN m THEN <<"dir-ids", DOMAIN a, DOMAIN m>>
  ELSE LET bad == {id \in DOMAIN a : a[id] # m[id]}
           id == CHOOSE x \in bad : TRUE
       IN IF Len(a[id]) # Len(m[id]) THEN <<"listing-length", id, [i \in 1..Len(a[id]) |-> a[id][i].n], [i \in 1..Len(m[id]) |-> m[id][i].n]>>
          ELSE LET i == CHOOSE j \in 1..Len(a[id]) : a[id][j] # m[id][j] IN <<"entry", id, i, "medium", a[id][i], "model", m[id][i]>>

Report(tags) ==  \* tags: set of <<property, tag, detail>>
  IF tags = {} THEN viol
  ELSE IF PrintT(<<"VIOL", hid, l, tags>>) THEN viol \cup {<<l, t[1], t[2]>> : t \in tags} ELSE viol

\* ------------------------------------------------------------------ Reset
TReset ==
  /\ IsEv("Reset")
  /\ LET e == Rec[l]
         ds == [v \in 1..e.nvol |-> MkDisk(e.vols[v], e.upb)]
     IN /\ disk' = ds /\ disk0' = ds /\ pre' = ds
        /\ dirs' = [v \in 1..e.nvol |-> AbsTree(ds[v])]
        /\ dur' = [v \in 1..e.nvol |-> {}]
        /\ minfo' = [v \in 1..e.nvol |-> [f |-> -1, n |-> -1, free |-> 0, under |-> FALSE, stale |-> FALSE]]
        /\ hid' = e.hid
        /\ lenient' = (e.chk = "listing")
        /\ lim' = [d |-> e.lim[1], f |-> e.lim[2], v |-> e.lim[3]]
        /\ viol' = LET bad == {v \in 1..e.nvol : WellFormedWhy(ds[v], {}) # "ok"} IN
                   IF bad = {} \/ e.chk = "listing" THEN viol
                   ELSE IF PrintT(<<"BADIMAGE", e.hid, l, {WellFormedWhy(ds[v], {}) : v \in bad}>>) THEN viol ELSE viol
  /\ ovols' = <<>> /\ odirs' = <<>> /\ ofiles' = <<>>
  /\ call' = NoCall /\ flt' = FALSE /\ fltd' = FALSE /\ dead' = FALSE /\ wfseen' = {}
  /\ l' = l + 1

\* ------------------------------------------------------------------ Call
VolOfSlot(slot) == IF \E v \in DOMAIN disk : disk[v].g.slot = slot
                   THEN CHOOSE v \in DOMAIN disk : disk[v].g.slot = slot ELSE 0
CallVol(op, a) ==
  CASE op = "open_volume" -> VolOfSlot(a.idx)
    [] op \in {"close_volume", "open_root", "label"} -> IF HasH(ovols, a.v) THEN RecOf(ovols, a.v).vol ELSE 0
    [] op \in {"open_dir", "change_dir", "close_dir", "find", "iterate", "iterate_lfn", "open_file", "delete", "mkdir", "ext_rename"} ->
         IF HasH(odirs, a.d) THEN RecOf(odirs, a.d).vol ELSE 0
    [] op \in {"read", "write", "seek_start", "seek_end", "seek_cur", "length", "offset", "eof", "flush", "close_file"} ->
         IF HasH(ofiles, a.f) THEN RecOf(ofiles, a.f).vol ELSE 0
    [] OTHER -> 0

TCall ==
  /\ IsEv("Call") /\ ~dead /\ call = NoCall
  /\ LET e == Rec[l] IN
       call' = [op |-> e.op, a |-> e.a, clk |-> e.clk, api |-> e.api,
                vol |-> IF "panicked" \in DOMAIN e.a THEN 0 ELSE CallVol(e.op, e.a)]
  /\ pre' = disk /\ flt' = FALSE
  \* the durability promise for a file ends when a call that modifies that file *begins*
  /\ dur' = LET e == Rec[l]  a == e.a IN
            IF "panicked" \in DOMAIN a THEN dur
            ELSE IF e.op = "write" /\ HasH(ofiles, a.f)
                 THEN LET f == RecOf(ofiles, a.f) IN [dur EXCEPT ![f.vol] = {x \in @ : ~(x.dir = f.dir /\ x.n = f.n)}]
            ELSE IF e.op \in {"delete", "open_file", "ext_rename"} /\ HasH(odirs, a.d) /\ a.nmok /\ (e.op \in {"delete", "ext_rename"} \/ a.mode \in {"Truncate", "CreateOrTruncate"})
                 THEN LET r == RecOf(odirs, a.d) IN [dur EXCEPT ![r.vol] = {x \in @ : ~(x.dir = r.id /\ x.n = a.nm)}]
            ELSE dur
  /\ l' = l + 1
  /\ UNCHANGED <<lenient, hid, disk, disk0, minfo, fltd, dead, wfseen, viol, apiVars>>

\* ------------------------------------------------------------------ C04: WriteLegal
\* position and slot of the live entry `n` of directory `id` on medium d ([b,i,sl]); b = -1 if absent
EntryPos(d, id, n) ==
  LET lst == Listing(d, id) IN
  IF \E i \in 1..Len(lst) : lst[i].sl.n = n
  THEN lst[CHOOSE i \in 1..Len(lst) : lst[i].sl.n = n /\ \A j \in 1..(i - 1) : lst[j].sl.n # n]
  ELSE [b |-> -1, i |-> -1, sl |-> EndSlot]

\* first cluster of an open file: the on-disk entry's, else the pending chain bound at its first write
FileStart(d, f) == LET p == EntryPos(d, f.dir, f.n) IN IF p.sl.c > 0 THEN p.sl.c ELSE f.fc

TailOf(d, c) == IF c = 0 THEN {} ELSE LET ch == Chain(d, c).cl IN IF Len(ch) = 0 THEN {} ELSE {ch[Len(ch)]}
DirTail(d, id) == LET ch == DirChain(d, id).cl IN IF Len(ch) = 0 THEN {} ELSE {ch[Len(ch)]}
SlotFreeAt(d, b, i) == SlotAt(d, b, i).k \in {"end", "del"}

AllowedFat(c, pd) ==
  LET op == c.op  a == c.a IN
  CASE op = "write" /\ HasH(ofiles, a.f) ->
         FreeSet(pd) \cup TailOf(pd, FileStart(pd, RecOf(ofiles, a.f)))
    [] op = "open_file" /\ HasH(odirs, a.d) /\ a.nmok ->
         LET r == RecOf(odirs, a.d)
             p == EntryPos(pd, r.id, a.nm)
         IN IF p.b = -1 THEN (IF a.mode \in CreateModes THEN FreeSet(pd) \cup DirTail(pd, r.id) ELSE {})
            ELSE IF a.mode \in {"Truncate", "CreateOrTruncate"} THEN ChainSet(pd, p.sl.c) ELSE {}
    [] op = "mkdir" /\ HasH(odirs, a.d) /\ a.nmok -> FreeSet(pd) \cup DirTail(pd, RecOf(odirs, a.d).id)
    [] op = "delete" /\ HasH(odirs, a.d) /\ a.nmok ->
         LET p == EntryPos(pd, RecOf(odirs, a.d).id, a.nm) IN IF p.b = -1 THEN {} ELSE ChainSet(pd, p.sl.c)
    [] OTHER -> {}

FatWriteOK(c, pd, d, e) ==
  LET cur == IF e.reg = "fat1" THEN d.fat1 ELSE d.fat2
      new == FatFn(e.fat)
  IN /\ ~e.chgx /\ e.restok
     /\ \A x \in ToSet(e.chg) :
          /\ x \in DOMAIN cur /\ x \in DOMAIN new
          \* an entry of the second copy may also change because the copy is brought in line with the first
          \* (the copies can differ after a failed call)
          /\ \/ (e.reg = "fat2" /\ x \in DOMAIN d.fat1 /\ new[x] = d.fat1[x])
             \/ /\ new[x].hi = cur[x].hi
                /\ x \in Valid(pd.g)
                /\ x \in AllowedFat(c, pd)

\* 0-based index of block b inside the chain that starts at cluster c0 on medium d; -1 if not on it
BlockPosInChain(d, c0, b) ==
  LET ch == Chain(d, c0).cl
      cb == BlockCluster(d.g, b)
  IN IF c0 = 0 \/ ~\E i \in 1..Len(ch) : ch[i] = cb THEN -1
     ELSE LET i == CHOOSE i \in 1..Len(ch) : ch[i] = cb
          IN (i - 1) * d.g.bpc + (b - ClusterBlocks(d.g, cb)[1])

BlockWriteOK(c, pd, d, e) ==
  LET op == c.op  a == c.a  b == e.blk  g == pd.g
      view == e.up[1].w
      chg == ToSet(e.chg)
      newc == ~IsRootBlock(g, b) /\ BlockCluster(g, b) \in FreeSet(pd) /\ op \in {"write", "open_file", "mkdir"}
  IN e.trk /\
     (newc \/ chg = {} \/
      CASE op = "write" /\ HasH(ofiles, a.f) ->
             LET f == RecOf(ofiles, a.f)
                 pos == BlockPosInChain(d, FileStart(pd, f), b)
             IN view = "u" /\ pos >= 0 /\
                \A j \in chg : LET u == pos * g.upb + j IN u >= f.off /\ u < f.off + Len(a.vals)
        [] op \in {"flush", "close_file"} /\ HasH(ofiles, a.f) ->
             LET f == RecOf(ofiles, a.f)
                 p == EntryPos(pd, f.dir, f.n)
             IN view = "s" /\ p.b = b /\ chg = {p.i}
        [] op = "open_file" /\ HasH(odirs, a.d) /\ a.nmok ->
             LET r == RecOf(odirs, a.d)
                 p == EntryPos(pd, r.id, a.nm)
             IN view = "s" /\ Cardinality(chg) = 1 /\
                IF p.b = -1
                THEN a.mode \in CreateModes /\ b \in ToSet(DirBlocks(pd, r.id)) /\ \A j \in chg : SlotFreeAt(pd, b, j)
                ELSE a.mode \in {"Truncate", "CreateOrTruncate"} /\ p.b = b /\ chg = {p.i}
        [] op = "mkdir" /\ HasH(odirs, a.d) /\ a.nmok ->
             LET r == RecOf(odirs, a.d) IN
             view = "s" /\ Cardinality(chg) = 1 /\ b \in ToSet(DirBlocks(pd, r.id)) /\ \A j \in chg : SlotFreeAt(pd, b, j)
        [] op = "delete" /\ HasH(odirs, a.d) /\ a.nmok ->
             LET p == EntryPos(pd, RecOf(odirs, a.d).id, a.nm) IN view = "s" /\ p.b = b /\ chg = {p.i}
        [] OTHER -> FALSE)

WriteLegalWhy(c, pd, d, e, v) ==
  \* (a write the application makes itself through `VolumeManager::device` is not the library's)
  IF c.op = "ext_rename" THEN "ok"
  ELSE IF v = 0 THEN "outside-any-volume:" \o e.reg
  ELSE IF c.vol # v THEN "other-volume"
  ELSE IF e.reg \in {"fat1", "fat2"} THEN (IF FatWriteOK(c, pd, d, e) THEN "ok" ELSE "fat-entry")
  ELSE IF e.reg \in {"root", "data"} THEN (IF BlockWriteOK(c, pd, d, e) THEN "ok" ELSE IF e.trk THEN "block-part" ELSE "untracked-cluster")
  ELSE IF e.reg = "info" THEN (IF c.op \in {"flush", "close_file", "close_volume"} /\ ~e.chgx THEN "ok" ELSE "info")
  ELSE "region:" \o e.reg

\* ------------------------------------------------------------------ W / Fail
TW ==
  /\ IsEv("W") /\ ~dead /\ call # NoCall
  /\ LET e == Rec[l]  v == e.vol IN
     IF v = 0
     THEN /\ viol' = Report({<<"C04", "WriteLegal", "outside-any-volume:" \o e.reg>>})
          /\ UNCHANGED <<lenient, disk, minfo>>
     ELSE LET d == disk[v]
              d2 == ApplyW(d, e)
              wl == IF "panicked" \in DOMAIN call.a THEN "ok" ELSE WriteLegalWhy(call, pre[v], d, e, v)
              cs == IF lenient THEN "ok" ELSE CrashSafeWhy(d2, pre[v])
              du == IF lenient THEN {} ELSE {r \in dur[v] : ~DurableOK(d2, r)}
          IN /\ disk' = [disk EXCEPT ![v] = d2]
             \* a stale stored count that is smaller than the number of clusters taken since mount
             \* cannot be kept exact (it would have to go below zero): remember that it happened
             /\ minfo' = IF e.reg = "fat1" /\ minfo[v].f >= 0 /\ minfo[v].f + (Cardinality(FreeSet(d2)) - minfo[v].free) < 0
                          THEN [minfo EXCEPT ![v].under = TRUE] ELSE minfo
             /\ viol' = Report(   (IF wl = "ok" THEN {} ELSE {<<"C04", "WriteLegal", wl>>})
                             \cup (IF cs = "ok" THEN {} ELSE {<<"C10", "CrashSafe", cs \o ":" \o call.op>>})
                             \cup (IF du = {} THEN {} ELSE {<<"C09", "Durable", call.op>>}))
  /\ l' = l + 1
  /\ UNCHANGED <<lenient, hid, disk0, pre, call, dur, flt, fltd, dead, wfseen, apiVars>>

TFail ==
  /\ IsEv("Fail") /\ ~dead
  /\ flt' = TRUE /\ fltd' = TRUE
  /\ l' = l + 1
  /\ UNCHANGED <<lenient, hid, disk, disk0, pre, call, dur, minfo, dead, wfseen, viol, apiVars>>

\* ------------------------------------------------------------------ library remount vs the specification's reading
KindOfAttr(a) == IF (a \div 8) % 2 = 1 THEN "label" ELSE IF (a \div 16) % 2 = 1 THEN "dir" ELSE "file"
LibEntry(x) ==
  LET k == KindOfAttr(x.a) IN
  [n |-> x.n, k |-> k, ro |-> (x.a % 2 = 1), len |-> x.s, ct |-> x.cc, mt |-> x.wc,
   id |-> IF k = "dir" THEN (IF x.c = -4 THEN 0 ELSE x.c) ELSE 0,
   data |-> IF k = "file" THEN x.data ELSE <<>>]
LibTree(lv) == LET f == FnOfSeq(lv.dirs, "id") IN
               [id \in DOMAIN f |-> [i \in 1..Len(f[id].ents) |-> LibEntry(f[id].ents[i])]]
LibReadable(lv) == \A i \in 1..Len(lv.dirs) : lv.dirs[i].it = "ok" /\
                     \A j \in 1..Len(lv.dirs[i].ents) : lv.dirs[i].ents[j].rd \in {"ok", "na"}

TRemount ==
  /\ IsEv("Remount") /\ ~dead
  /\ LET e == Rec[l] IN
     viol' = Report(UNION {
        LET lv == e.vols[v] IN
        IF lv.mount # "ok" THEN {<<"C02", "Remount", lv.mount>>}
        \* (a medium that is not well-formed on purpose - results-only histories - need not read the same for both readers)
        ELSE IF lenient THEN {}
        ELSE IF ~LibReadable(lv) THEN {<<"C02", "Remount", "unreadable">>}
        ELSE IF LibTree(lv) # AbsTree(disk[v]) THEN {<<"C02", "Remount", "library view differs from the independent reader">>}
        ELSE {} : v \in DOMAIN disk})
  /\ l' = l + 1
  /\ UNCHANGED <<lenient, hid, disk, disk0, pre, call, dur, minfo, flt, fltd, dead, wfseen, apiVars>>

LibHasDurable(lv, r) ==
  LET t == LibTree(lv) IN
  r.dir \in DOMAIN t /\ \E i \in 1..Len(t[r.dir]) :
     t[r.dir][i].n = r.n /\ t[r.dir][i].len >= r.len /\ SubSeq(t[r.dir][i].data, 1, r.len) = r.data

TCrashMount ==
  /\ IsEv("CrashMount") /\ ~dead
  /\ LET e == Rec[l] IN
     viol' = Report(UNION {
        LET lv == e.vols[v]
            d == disk[v]
            safe == CrashSafe(d, pre[v])
        IN IF ~(lv.mount = "ok") THEN {<<"C10", "CrashMount", lv.mount>>}
           ELSE (IF safe /\ LibReadable(lv) /\ LibTree(lv) # AbsTree(d) THEN {<<"C10", "CrashMount", "library view differs">>} ELSE {})
            \cup (IF \E r \in dur[v] : ~LibHasDurable(lv, r) THEN {<<"C09", "CrashMount", "durable file not shown by the library">>} ELSE {})
        : v \in DOMAIN disk})
  /\ fltd' = fltd
  /\ l' = l + 1
  /\ UNCHANGED <<lenient, hid, disk, disk0, pre, call, dur, minfo, flt, dead, wfseen, apiVars>>

\* ------------------------------------------------------------------ Return
PanicProp(op) ==
  IF flt \/ fltd THEN "C11"
  ELSE IF ("reent" \in DOMAIN call.a /\ call.a.reent) \/ ("spec" \in DOMAIN call.a /\ "reent" \in DOMAIN call.a.spec /\ call.a.spec.reent) THEN "C08"      \* a call made from inside the callback panicked instead of returning LockError
  ELSE IF call.vol # 0 /\ disk[call.vol].g.fat32 /\ minfo[call.vol].f >= 0 /\ minfo[call.vol].f # minfo[call.vol].free THEN "C16"
  ELSE IF op \in {"read", "write", "seek_start", "seek_end", "seek_cur", "length", "offset", "eof"} THEN "C01"
  ELSE IF op \in {"flush", "close_file"} THEN "C02"
  ELSE IF op \in {"open_volume"} THEN "C15"
  ELSE IF op \in {"iterate", "iterate_lfn", "find"} THEN "C06"
  ELSE "C03"

\* which property an inadmissible result belongs to
HandleErrs == {"BadHandle", "TooManyOpenVolumes", "TooManyOpenDirs", "TooManyOpenFiles", "LockError", "VolumeStillInUse", "VolumeAlreadyOpen"}
ResProp(op, refs, r) ==
  IF (r.k = "err" /\ r.e \in HandleErrs) \/ refs \cap HandleErrs # {} THEN "C08"
  ELSE IF (r.k = "err" /\ r.e \in SpaceErrs) \/ refs \cap SpaceErrs # {} THEN "C05"
  ELSE IF op \in {"find", "open_dir", "change_dir", "iterate", "iterate_lfn", "label"} THEN "C06"
  ELSE IF op \in {"read", "seek_start", "seek_end", "seek_cur", "length", "offset", "eof"} THEN "C01"
  ELSE IF op \in {"flush", "close_file"} THEN "C02"
  ELSE "C07"

\* --- C06: what the library reports for a slot must be what is stored
RepresentableDT(dt, tm) ==
  LET mo == (dt \div 32) % 16  dy == dt % 32  h == tm \div 2048  mi == (tm \div 32) % 64  s2 == tm % 32
  IN mo >= 1 /\ mo <= 12 /\ dy >= 1 /\ h <= 23 /\ mi <= 59 /\ s2 <= 29
EntryMatchesSlot(x, p) ==  \* x: DirEntry as reported, p: [b,i,sl]
  /\ x.n = p.sl.n
  /\ x.a = p.sl.a % 64
  /\ (x.c = p.sl.c \/ (p.sl.c = 0 /\ p.sl.k = "dir" /\ x.c = -4))
  /\ x.zh = p.sl.zh /\ x.zl = p.sl.zl
  /\ (RepresentableDT(p.sl.cd, p.sl.ct) => x.cd = p.sl.cd /\ x.ct = p.sl.ct)
  /\ (RepresentableDT(p.sl.wd, p.sl.wt) => x.wd = p.sl.wd /\ x.wt = p.sl.wt)
  /\ x.eb = p.b /\ x.eo = 32 * p.i
ListingMatches(ents, lst) ==
  Len(ents) = Len(lst) /\ \A i \in 1..Len(lst) : EntryMatchesSlot(ents[i], lst[i])

\* --- C17: long names in a listing.  ents: reported entries (live short entries in order); slots: DirSlots
LiveIdx(slots) == SelectSeq([k \in 1..Len(slots) |-> k], LAMBDA k : IsLive(slots[k].sl))
LfnListingOK(ents, slots, buf) ==
  LET li == LiveIdx(slots) IN
  Len(ents) = Len(li) =>
  \A i \in 1..Len(ents) :
     LET run == LfnFor(slots, li[i]) IN
     /\ ents[i].has => (run.ok \/ run.mixed) /\ (run.ok => ents[i].lfn = BufferText(run.frags, buf))
     \* ... and such a run does give the entry its long name (the other half: otherwise reporting none at all would do)
     /\ (run.ok /\ Len(run.frags) <= 20) => ents[i].has      \* (a name has at most 255 characters: 20 fragments)

LfnFirstBad(ents, slots, buf) ==
  LET li == LiveIdx(slots)
      bad == {i \in 1..Len(ents) : LET run == LfnFor(slots, li[i]) IN
                  (ents[i].has /\ ~((run.ok \/ run.mixed) /\ (run.ok => ents[i].lfn = BufferText(run.frags, buf)))) \/ (run.ok /\ Len(run.frags) <= 20 /\ ~ents[i].has)}
      i == CHOOSE x \in bad : \A y \in bad : x <= y
  IN <<i, ents[i].n, ents[i].lfn, LfnFor(slots, li[i])>>

\* --- pending state of open files (C01/C03)
FileDataP(f) == LET lst == dirs'[f.vol][f.dir] IN lst[CHOOSE k \in 1..Len(lst) : lst[k].n = f.n].data
PendingOK(d, f) ==
  LET data == FileDataP(f) IN
  Len(data) = 0 \/ DataOf(d, FileStart(d, f), Len(data)) = data
PendHeads(v) ==
  {ofiles'[i].fc : i \in {j \in 1..Len(ofiles') : ofiles'[j].vol = v /\ ofiles'[j].fc # 0 /\
                          EntryPos(disk[v], ofiles'[j].dir, ofiles'[j].n).sl.c = 0}}

\* checks common to every Return of a fault-free call (uses primed api variables)
ObsOK(obs) ==
  \A i \in 1..Len(ofiles') :
    LET f == ofiles'[i]
        data == dirs'[f.vol][f.dir][CHOOSE k \in 1..Len(dirs'[f.vol][f.dir]) : dirs'[f.vol][f.dir][k].n = f.n].data
    IN \E j \in 1..Len(obs) : obs[j].h = f.h /\ obs[j].ok /\ obs[j].len = Len(data) /\ obs[j].off = f.off
                               /\ obs[j].eof = (f.off = Len(data))

StateChecks(op, obs, fateq) ==
  IF lenient THEN {} ELSE
  UNION {
    LET d == disk[v]
        wf == WellFormedWhy(d, PendHeads(v))
    IN (IF AbsTree(d) = DiskView(dirs'[v]) THEN {}
        ELSE IF PrintT(<<"DIFF", hid, l, TreeDiff(AbsTree(d), DiskView(dirs'[v]))>>)
             THEN {<<"C02", "Refines", "medium does not hold what the history says:" \o op>>} ELSE {})
     \cup (IF wf = "ok" \/ <<v, wf, Orphans(d)>> \in wfseen \/ (fltd /\ wf \in {"orphans", "pending-chain"}) THEN {} ELSE {<<IF wf = "orphans" THEN "C05" ELSE "C03", "WellFormed", wf \o ":" \o op>>})
     \cup (IF fltd \/ (FatCopiesEqual(d) /\ fateq) THEN {} ELSE {<<"C16", "FatCopiesEqual", op>>})
     \cup (IF \A i \in 1..Len(ofiles') : ofiles'[i].vol = v => PendingOK(d, ofiles'[i]) THEN {}
           ELSE {<<"C01", "PendingData", "data of an open file is not on its chain:" \o op>>})
    : v \in DOMAIN disk}
  \cup (IF ObsOK(obs) THEN {} ELSE {<<"C01", "Observers", "length/offset/eof differ from the model:" \o op>>})

\* after these the rest of the history is skipped.  Everything else - a wrong result, data or cursor discrepancies, a
\* medium that does not hold what the history says - leaves the model in the state the *specification* prescribes, and
\* validation goes on: what follows in an already violating history is reported under the property it belongs to
\* (a duplicate created after a lookup failed is a C03 matter as well as a C06 one).
DesyncTags == {"Panic"}

\* the generic shape of a Return: admissibility, post-state, then the state checks
\* refs: refusal set; okPost: action for success; extra: additional tags (computed from primed state)
NewHandleTags(h) == IF h \in OpenHandles THEN {<<"C08", "Handle", "returned handle is already open">>} ELSE {}

InfoTags(v, wrote) ==
  LET d == disk[v]  m == minfo[v] IN
  IF ~d.g.fat32 \/ fltd \/ ~wrote THEN {}
  ELSE (IF m.f = -1 /\ d.info.f # -1 THEN {<<"C16", "InfoTruthful", "unknown count became known">>} ELSE {})
    \* a stale count cannot follow the change below zero: then nothing is demanded of it
    \cup (IF m.f >= 0 /\ ~m.under /\ d.info.f - m.f # Cardinality(FreeSet(d)) - m.free
          THEN {<<"C16", "InfoTruthful", "free count drifted">>} ELSE {})
    \cup (IF d.info.n # m.n /\ ~(d.info.n = -1 \/ d.info.n \in Valid(d.g))
          THEN {<<"C16", "InfoTruthful", "next-free hint outside the volume">>} ELSE {})

\* C16, last sentence: a wrong record found at mount must not make an operation fail
StaleTags(v, r, op) ==
  IF v # 0 /\ v \in DOMAIN minfo /\ minfo[v].stale /\ r.k = "err" /\ ~fltd
  THEN {<<"C16", "InfoHarmless", op \o " failed (" \o r.e \o ") on a volume whose information sector was wrong at mount, although the model admits no failure">>} ELSE {}

\* capacity available to a write on the pre-call medium (C05)
RoomFor(pd, f) ==
  LET st == FileStart(pd, f)
      cap == IF st = 0 THEN 0 ELSE Len(Chain(pd, st).cl) * UnitsPerCluster(pd.g)
  IN (IF cap > f.off THEN cap - f.off ELSE 0) + Cardinality(FreeSet(pd)) * UnitsPerCluster(pd.g)

\* is there room to add one entry to directory id (and `extra` more clusters)?
NoSpaceForEntry(pd, id, extra) ==
  LET blks == DirBlocks(pd, id)
      hasSlot == \E i \in 1..Len(blks) : \E j \in 0..15 : SlotFreeAt(pd, blks[i], j)
      grow == IF hasSlot THEN 0 ELSE 1
  IN (~hasSlot /\ id = 0 /\ ~pd.g.fat32) \/ Cardinality(FreeSet(pd)) < grow + extra

ObsOff(obs, h) == IF \E j \in 1..Len(obs) : obs[j].h = h THEN obs[CHOOSE j \in 1..Len(obs) : obs[j].h = h].off ELSE -1

TRet ==
  /\ IsEv("Ret") /\ ~dead /\ call # NoCall /\ ~flt /\ Rec[l].r.k # "panic" /\ ~("panicked" \in DOMAIN call.a)
  /\ LET e == Rec[l]  r == e.r  a == call.a  op == call.op  now == call.clk  v == call.vol
         ok == r.k = "ok"
         \* ---- per-operation: <<refs, extra tags (pre-state), post action>> ----
     IN
     \/ /\ op = "open_volume"
        /\ LET refs == OpenVolumeRefs(v, v # 0) IN
           IF Admissible(refs, r)
           THEN /\ IF ok THEN OpenVolumePost(v, r.v.h) ELSE UNCHANGED apiVars
                /\ minfo' = IF ok THEN [minfo EXCEPT ![v] = [f |-> disk[v].info.f, n |-> disk[v].info.n, free |-> Cardinality(FreeSet(disk[v])), under |-> FALSE,
                                                           \* the record found at mount is wrong: count not the number of free entries, or hint not a free cluster
                                                           stale |-> disk[v].g.fat32 /\ ((disk[v].info.f >= 0 /\ disk[v].info.f # Cardinality(FreeSet(disk[v])))
                                                                                        \/ disk[v].info.f = -2 \/ (disk[v].info.n # -1 /\ disk[v].info.n \notin FreeSet(disk[v])))]] ELSE minfo
                /\ viol' = Report((IF ok THEN NewHandleTags(r.v.h) ELSE {}) \cup StateChecks(op, e.obs, e.fateq))
           ELSE /\ UNCHANGED apiVars /\ minfo' = minfo
                /\ viol' = Report({<<ResProp(op, refs, r), "Result", op \o ":" \o r.k \o ":" \o r.e>>})
        /\ dur' = dur
     \/ /\ op = "close_volume"
        /\ LET refs == CloseVolumeRefs(a.v) IN
           IF Admissible(refs, r)
           THEN /\ IF ok THEN CloseVolumePost(a.v) ELSE UNCHANGED apiVars
                /\ viol' = Report(StateChecks(op, e.obs, e.fateq) \cup (IF ok THEN InfoTags(v, TRUE) ELSE {})
                                  \cup (IF ~ok /\ disk # pre THEN {<<"C08", "Refused", "refused call wrote">>} ELSE {}))
           ELSE /\ UNCHANGED apiVars
                /\ viol' = Report({<<ResProp(op, refs, r), "Result", op \o ":" \o r.k \o ":" \o r.e>>})
        /\ dur' = dur /\ minfo' = minfo
     \/ /\ op = "open_root"
        /\ LET refs == OpenRootRefs(a.v) IN
           IF Admissible(refs, r)
           THEN /\ IF ok THEN OpenRootPost(a.v, r.v.h) ELSE UNCHANGED apiVars
                /\ viol' = Report((IF ok THEN NewHandleTags(r.v.h) ELSE {}) \cup StateChecks(op, e.obs, e.fateq))
           ELSE /\ UNCHANGED apiVars
                /\ viol' = Report({<<ResProp(op, refs, r), "Result", op \o ":" \o r.k \o ":" \o r.e>>})
        /\ dur' = dur /\ minfo' = minfo
     \/ /\ op \in {"open_dir", "change_dir"}
        /\ LET refs == OpenDirRefs(a.d, a.nm, a.nmok)
               may == OpenDirMayFail(a.d, a.nm) /\ r.k = "err" /\ r.e = "NotFound"
           IN
           IF Admissible(refs, r) \/ (refs = {} /\ may)
           THEN /\ IF ok THEN (IF op = "open_dir" THEN OpenDirPost(a.d, a.nm, r.v.h) ELSE ChangeDirPost(a.d, a.nm, r.v.h))
                         ELSE UNCHANGED apiVars
                /\ viol' = Report((IF ok THEN NewHandleTags(r.v.h) ELSE {}) \cup StateChecks(op, e.obs, e.fateq)
                                  \cup (IF disk # pre THEN {<<"C07", "Refused", "open_dir wrote">>} ELSE {}))
           ELSE /\ UNCHANGED apiVars
                \* (whatever else is wrong with the call - a full table, say - a name that is not a directory's never opens as one)
                /\ viol' = Report({<<ResProp(op, refs, r), "Result", op \o ":" \o r.k \o ":" \o r.e>>}
                                  \cup (IF ok /\ HasH(odirs, a.d) /\ a.nmok /\ a.nm # DotN
                                           /\ LET rr == RecOf(odirs, a.d)  i == EntIdx(rr.vol, rr.id, a.nm)
                                              IN i # 0 /\ dirs[rr.vol][rr.id][i].k # "dir"
                                        THEN {<<"C07", "Typing", op \o " opened a file (or the label) as a directory">>} ELSE {}))
        /\ dur' = dur /\ minfo' = minfo
     \/ /\ op = "close_dir"
        /\ LET refs == CloseDirRefs(a.d) IN
           IF Admissible(refs, r)
           THEN /\ IF refs = {} THEN CloseDirPost(a.d) ELSE UNCHANGED apiVars
                /\ viol' = Report(StateChecks(op, e.obs, e.fateq))
           ELSE /\ UNCHANGED apiVars
                /\ viol' = Report({<<ResProp(op, refs, r), "Result", op \o ":" \o r.k \o ":" \o r.e>>})
        /\ dur' = dur /\ minfo' = minfo
     \/ /\ op = "ext_rename"
        \* the application replaced the name bytes of a closed file's entry on the medium (through `VolumeManager::device`):
        \* the model's directory follows; every later listing / lookup / open is judged against the medium as it is now
        /\ LET rr == RecOf(odirs, a.d)
               i == IF HasH(odirs, a.d) /\ a.nmok THEN EntIdx(rr.vol, rr.id, a.nm) ELSE 0
           IN /\ dirs' = IF ok /\ i # 0 THEN [dirs EXCEPT ![rr.vol][rr.id][i].n = a.to] ELSE dirs
              /\ UNCHANGED <<ovols, odirs, ofiles, lim>>
              /\ viol' = Report(StateChecks(op, e.obs, e.fateq))
        /\ dur' = dur /\ minfo' = minfo
     \/ /\ op = "find"
        /\ LET refs == FindRefs(a.d, a.nm, a.nmok) IN
           IF Admissible(refs, r)
           THEN /\ UNCHANGED apiVars
                /\ viol' = Report(StateChecks(op, e.obs, e.fateq)
                     \cup (IF ok /\ ~EntryMatchesSlot(r.v, EntryPos(disk[v], RecOf(odirs, a.d).id, a.nm))
                           THEN {<<"C06", "Lookup", "find returned something else than the first live entry of that name">>} ELSE {})
                     \cup (IF disk # pre THEN {<<"C07", "Refused", "find wrote">>} ELSE {}))
           ELSE /\ UNCHANGED apiVars
                /\ viol' = Report({<<ResProp(op, refs, r), "Result", op \o ":" \o r.k \o ":" \o r.e>>})
        /\ dur' = dur /\ minfo' = minfo
     \/ /\ op \in {"iterate", "iterate_lfn"}
        /\ LET refs == IterateRefs(a.d) IN
           IF Admissible(refs, r)
           THEN /\ UNCHANGED apiVars
                /\ viol' = Report(StateChecks(op, e.obs, e.fateq)
                     \cup (IF ok /\ ~ListingMatches(r.v.ents, Listing(disk[v], RecOf(odirs, a.d).id))
                           THEN {<<"C06", "Listing", "iteration differs from the live entries in slot order">>} ELSE {})
                     \cup (IF ok /\ op = "iterate_lfn" /\ ~LfnListingOK(r.v.ents, DirSlots(disk[v], RecOf(odirs, a.d).id), a.buf)
                           THEN {<<"C17", "LfnListing", "a long name was reported without a complete, ordered, checksum-matching run in front of the entry (or with another text), or such a run was not reported: entry " \o ToString(LfnFirstBad(r.v.ents, DirSlots(disk[v], RecOf(odirs, a.d).id), a.buf))>>} ELSE {})
                     \cup (IF ok /\ \E i \in 1..Len(r.v.probe) : r.v.probe[i].e # "LockError"
                           THEN {<<"C08", "Reentrant", "a call from inside the callback did not fail with LockError">>} ELSE {})
                     \cup (IF disk # pre THEN {<<"C08", "Refused", "iteration wrote">>} ELSE {}))
           ELSE /\ UNCHANGED apiVars
                /\ viol' = Report({<<ResProp(op, refs, r), "Result", op \o ":" \o r.k \o ":" \o r.e>>})
        /\ dur' = dur /\ minfo' = minfo
     \/ /\ op = "open_file"
        /\ LET dirok == HasH(odirs, a.d) /\ a.nmok
               id == IF dirok THEN RecOf(odirs, a.d).id ELSE 0
               missing == dirok /\ EntIdx(v, id, a.nm) = 0
               nospace == missing /\ a.mode \in CreateModes /\ NoSpaceForEntry(pre[v], id, 0)
               refs == OpenFileRefs(a.d, a.nm, a.nmok, a.mode, nospace)
               pos == IF ok /\ missing THEN
                         LET al == AbsListing(disk[v], id) IN
                         IF \E i \in 1..Len(al) : al[i].n = a.nm THEN CHOOSE i \in 1..Len(al) : al[i].n = a.nm ELSE 1
                      ELSE 1
           IN
           IF Admissible(refs, r)
           THEN /\ IF ok THEN OpenFilePost(a.d, a.nm, a.mode, r.v.h, now, pos) ELSE UNCHANGED apiVars
                /\ viol' = Report((IF ok THEN NewHandleTags(r.v.h) ELSE {}) \cup StateChecks(op, e.obs, e.fateq)
                                  \cup (IF ~ok /\ disk # pre THEN {<<"C07", "Refused", "refused open wrote">>} ELSE {})
                                  \* truncating a file makes its clusters available again: of the chain the entry had before the call
                                  \* at most the first cluster is still in use when the call has returned (whatever size the entry recorded)
                                  \cup (IF ok /\ ~missing /\ ~lenient /\ ~fltd /\ a.mode \in {"Truncate", "CreateOrTruncate"}
                                           /\ LET c0 == EntryPos(pre[v], id, a.nm).sl.c
                                                  ch == IF c0 >= 2 THEN Chain(pre[v], c0).cl ELSE <<>>
                                              IN \E i \in 2..Len(ch) : ch[i] \notin FreeSet(disk[v])
                                        THEN {<<"C05", "Reclaimed", "clusters of a truncated file's chain are still in use after the truncating open returned">>} ELSE {}))
                /\ dur' = IF ok /\ ~missing /\ a.mode \in {"Truncate", "CreateOrTruncate"}
                          THEN [dur EXCEPT ![v] = {x \in @ : ~(x.dir = id /\ x.n = a.nm)}] ELSE dur
           ELSE /\ UNCHANGED apiVars /\ dur' = dur
                /\ viol' = Report({<<ResProp(op, refs, r), "Result", op \o ":" \o a.mode \o ":" \o r.k \o ":" \o r.e>>} \cup (IF refs = {} THEN StaleTags(v, r, op) ELSE {}))
        /\ minfo' = minfo
     \/ /\ op = "read"
        /\ LET refs == FileRefs(a.f) IN
           \* (embedded-io: an empty buffer is answered with 0 by the wrapper itself, no call is made - whatever the handle is)
           IF refs # {} /\ call.api = "eio" /\ a.n = 0 /\ ok
           THEN /\ UNCHANGED apiVars /\ viol' = Report(StateChecks(op, e.obs, e.fateq))
           ELSE IF Admissible(refs, r)
           THEN /\ IF ok /\ r.v.cnt >= 0 THEN ReadPost(a.f, r.v.cnt) ELSE UNCHANGED apiVars
                /\ viol' = Report(StateChecks(op, e.obs, e.fateq)
                     \cup (IF ok /\ ~(r.v.cnt >= 0 /\ r.v.tailok /\ ReadResOK(a.f, a.n, r.v.cnt, r.v.vals))
                           THEN {<<"C01", "ReadData", "read returned other bytes than the model holds">>} ELSE {})
                     \cup (IF disk # pre THEN {<<"C04", "Refused", "read wrote">>} ELSE {}))
           ELSE /\ UNCHANGED apiVars
                /\ viol' = Report({<<ResProp(op, refs, r), "Result", op \o ":" \o r.k \o ":" \o r.e>>})
        /\ dur' = dur /\ minfo' = minfo
     \/ /\ op = "write"
        /\ LET refs == WriteRefs(a.f)
               n == Len(a.vals)
           IN
           IF refs # {} \/ (call.api = "eio" /\ n = 0)   \* embedded-io: an empty buffer is a no-op returning 0
           THEN IF Admissible(refs, r) \/ (call.api = "eio" /\ n = 0 /\ ok)    \* ... also on a read-only handle
                THEN /\ UNCHANGED apiVars /\ dur' = dur
                     /\ viol' = Report(StateChecks(op, e.obs, e.fateq) \cup (IF disk # pre THEN {<<"C07", "Refused", "refused write wrote">>} ELSE {}))
                ELSE /\ UNCHANGED apiVars /\ dur' = dur
                     /\ viol' = Report({<<ResProp(op, refs, r), "Result", op \o ":" \o r.k \o ":" \o r.e>>})
           ELSE LET f0 == RecOf(ofiles, a.f)
                    heads == OrphanHeads(disk[v]) \ OrphanHeads(pre[v])
                    \* f0.fcq: the first cluster was allocated by an earlier call that failed before any data reached it. The
                    \* library may have kept it for the file (this one does) or not; if it starts a new chain now, it did not.
                    forgot == f0.fcq /\ EntryPos(pre[v], f0.dir, f0.n).sl.c = 0 /\ Cardinality(heads) = 1
                    f == IF forgot THEN [f0 EXCEPT !.fc = 0] ELSE f0
                    room == RoomFor(pre[v], f)
                    roomB == IF f0.fcq THEN RoomFor(pre[v], [f0 EXCEPT !.fc = 0]) ELSE room
                    fits == n <= room
                    acc == IF ok THEN n ELSE LET o == ObsOff(e.obs, a.f) IN IF o >= f.off /\ o - f.off <= n THEN o - f.off ELSE 0
                    st0 == FileStart(pre[v], f)
                    fc == IF st0 # 0 THEN f.fc
                          ELSE IF Cardinality(heads) = 1 THEN CHOOSE x \in heads : TRUE ELSE 0
                    \* a zero-length write allocates a first cluster (named deviation): on a full
                    \* volume it may therefore fail although nothing needed to be stored
                    zeroFull == n = 0 /\ st0 = 0 /\ FreeSet(pre[v]) = {}
                    resOK == \/ ok /\ (fits \/ zeroFull)
                             \/ r.k = "err" /\ r.e \in SpaceErrs /\ (~fits \/ zeroFull \/ n > roomB) /\ acc \in {Min2(n, room), Min2(n, roomB)}
                IN IF resOK
                   THEN /\ WritePost(a.f, a.vals, acc, now, ok, fc)
                        /\ dur' = [dur EXCEPT ![v] = {x \in @ : ~(x.dir = f.dir /\ x.n = f.n)}]
                        /\ viol' = Report(StateChecks(op, e.obs, e.fateq))
                   ELSE /\ UNCHANGED apiVars /\ dur' = dur
                        /\ viol' = Report({<<IF r.k = "err" /\ r.e \notin SpaceErrs THEN "C01" ELSE "C05", "Result",
                                             "write:" \o r.k \o ":" \o r.e \o (IF fits THEN ":fits" ELSE ":does-not-fit")>>}
                                           \cup (IF fits THEN StaleTags(v, r, op) ELSE {}))
        /\ minfo' = minfo
     \/ /\ op \in {"seek_start", "seek_end", "seek_cur"}
        /\ LET refs == SeekRefs(a.f, op, a.u) IN
           IF Admissible(refs, r)
           THEN /\ IF ok THEN SeekPost(a.f, op, a.u) ELSE UNCHANGED apiVars
                /\ viol' = Report(StateChecks(op, e.obs, e.fateq) \cup (IF disk # pre THEN {<<"C04", "Refused", "seek wrote">>} ELSE {}))
           ELSE /\ UNCHANGED apiVars
                /\ viol' = Report({<<ResProp(op, refs, r), "Result", op \o ":" \o r.k \o ":" \o r.e>>})
        /\ dur' = dur /\ minfo' = minfo
     \/ /\ op \in {"length", "offset", "eof"}
        /\ LET refs == FileRefs(a.f) IN
           IF Admissible(refs, r)
           THEN /\ UNCHANGED apiVars
                /\ viol' = Report(StateChecks(op, e.obs, e.fateq)
                     \cup (IF ok /\ ~(LET f == RecOf(ofiles, a.f) IN
                                        CASE op = "length" -> r.v.n = Len(FileData(f))
                                          [] op = "offset" -> r.v.n = f.off
                                          [] op = "eof" -> r.v.b = (f.off = Len(FileData(f))))
                           THEN {<<"C01", "Observers", op \o " differs from the model">>} ELSE {}))
           ELSE /\ UNCHANGED apiVars
                /\ viol' = Report({<<ResProp(op, refs, r), "Result", op \o ":" \o r.k \o ":" \o r.e>>})
        /\ dur' = dur /\ minfo' = minfo
     \/ /\ op \in {"flush", "close_file"}
        /\ LET refs == FileRefs(a.f) IN
           IF Admissible(refs, r)
           THEN /\ IF refs = {} THEN (IF op = "flush" THEN FlushPost(a.f) ELSE CloseFilePost(a.f)) ELSE UNCHANGED apiVars
                /\ viol' = Report(StateChecks(op, e.obs, e.fateq)
                                  \cup (IF refs = {} THEN InfoTags(v, RecOf(ofiles, a.f).dirty) ELSE {})
                                  \cup (IF refs # {} /\ disk # pre THEN {<<"C08", "Refused", "refused call wrote">>} ELSE {}))
                /\ dur' = IF refs = {} /\ r.k = "ok"
                          THEN LET f == RecOf(ofiles, a.f) IN
                               [dur EXCEPT ![v] = {x \in @ : ~(x.dir = f.dir /\ x.n = f.n)} \cup
                                   {[dir |-> f.dir, n |-> f.n, len |-> Len(FileData(f)), data |-> FileData(f)]}]
                          ELSE dur
           ELSE /\ UNCHANGED apiVars /\ dur' = dur
                /\ viol' = Report({<<ResProp(op, refs, r), "Result", op \o ":" \o r.k \o ":" \o r.e>>})
        /\ minfo' = minfo
     \/ /\ op = "delete"
        /\ LET refs == DeleteRefs(a.d, a.nm, a.nmok) IN
           IF Admissible(refs, r)
           THEN /\ IF ok THEN DeletePost(a.d, a.nm) ELSE UNCHANGED apiVars
                /\ viol' = Report(StateChecks(op, e.obs, e.fateq)
                                  \cup (IF ~ok /\ disk # pre THEN {<<"C07", "Refused", "refused delete wrote">>} ELSE {}))
                /\ dur' = IF ok THEN [dur EXCEPT ![v] = {x \in @ : ~(x.dir = RecOf(odirs, a.d).id /\ x.n = a.nm)}] ELSE dur
           ELSE /\ UNCHANGED apiVars /\ dur' = dur
                /\ viol' = Report({<<ResProp(op, refs, r), "Result", op \o ":" \o r.k \o ":" \o r.e>>})
        /\ minfo' = minfo
     \/ /\ op = "mkdir"
        /\ LET dirok == HasH(odirs, a.d) /\ a.nmok
               id == IF dirok THEN RecOf(odirs, a.d).id ELSE 0
               missing == dirok /\ EntIdx(v, id, a.nm) = 0
               nospace == missing /\ NoSpaceForEntry(pre[v], id, 1)
               refs == MkDirRefs(a.d, a.nm, a.nmok, nospace)
               al == IF ok /\ missing THEN AbsListing(disk[v], id) ELSE <<>>
               pos == IF \E i \in 1..Len(al) : al[i].n = a.nm THEN CHOOSE i \in 1..Len(al) : al[i].n = a.nm ELSE 0
               may == MkDirMayRefuse /\ r.k = "err" /\ r.e = "TooManyOpenDirs"
           IN
           IF Admissible(refs, r) \/ may
           THEN /\ IF ok /\ pos # 0 THEN MkDirPost(a.d, a.nm, al[pos].id, pos, now) ELSE UNCHANGED apiVars
                /\ viol' = Report(StateChecks(op, e.obs, e.fateq)
                                  \cup (IF ok /\ pos = 0 THEN {<<"C02", "Refines", "mkdir succeeded but the entry is not on the medium">>} ELSE {})
                                  \cup (IF ~ok /\ refs \cap SpaceErrs = {} /\ disk # pre THEN {<<"C07", "Refused", "refused mkdir wrote">>} ELSE {}))
           ELSE /\ UNCHANGED apiVars
                /\ viol' = Report({<<ResProp(op, refs, r), "Result", op \o ":" \o r.k \o ":" \o r.e>>})
        /\ dur' = dur /\ minfo' = minfo
     \/ /\ op = "label"
        /\ LET refs == IF HasH(ovols, a.v) THEN {} ELSE {"BadHandle"} IN
           IF Admissible(refs, r) \/ (refs = {} /\ r.k = "err" /\ r.e = "TooManyOpenDirs" /\ Len(odirs) >= lim.d)
           THEN /\ UNCHANGED apiVars
                /\ viol' = Report(StateChecks(op, e.obs, e.fateq))
           ELSE /\ UNCHANGED apiVars
                /\ viol' = Report({<<ResProp(op, refs, r), "Result", op \o ":" \o r.k \o ":" \o r.e>>})
        /\ dur' = dur /\ minfo' = minfo
     \/ /\ op = "has_open"
        /\ UNCHANGED apiVars /\ dur' = dur /\ minfo' = minfo
        /\ viol' = Report(IF r.v.b = HasOpenTruth THEN {} ELSE {<<"C08", "HasOpen", "open-handle query does not tell the truth">>})
  /\ call' = NoCall /\ flt' = FALSE
  /\ dead' = \E t \in (viol' \ viol) : t[3] \in DesyncTags
  /\ wfseen' = wfseen \cup {<<x, WellFormedWhy(disk[x], PendHeads(x)), Orphans(disk[x])>> : x \in DOMAIN disk}
  /\ l' = l + 1
  /\ UNCHANGED <<lenient, hid, disk, disk0, pre, fltd>>

\* a panic is a violation wherever a panic may not happen; the history ends there
TRetPanic ==
  /\ IsEv("Ret") /\ ~dead /\ call # NoCall /\ (Rec[l].r.k = "panic" \/ "panicked" \in DOMAIN call.a)
  /\ viol' = Report({<<PanicProp(call.op), "Panic", call.op \o ":" \o Rec[l].r.e>>})
  /\ dead' = TRUE /\ call' = NoCall /\ flt' = FALSE
  /\ l' = l + 1
  /\ UNCHANGED <<lenient, hid, disk, disk0, pre, dur, minfo, fltd, wfseen, apiVars>>

\* ------------------------------------------------------------------ a faulted call (C11)
\* A block-device call failed inside the call in flight.  The call must report an error (never
\* success, never a panic).  What the failed call did to the object it was working on is not
\* prescribed, so that object is re-read from the medium; everything else must be exactly what
\* the model says (files not involved are intact) and no directory may hold a name twice.  The
\* rest of the history - every handle used and closed, read-only calls retried - is then
\* validated as usual against the re-synchronised model.
WithoutName(lst, nm) == SelectSeq(lst, LAMBDA x : x.n # nm)
ModelEntryOr(lst, x) == IF \E i \in 1..Len(lst) : lst[i].n = x.n THEN lst[CHOOSE i \in 1..Len(lst) : lst[i].n = x.n] ELSE x
\* the listing of directory id after the failed call: the medium's order; the involved name from
\* the medium, every other entry from the model (it carries the write-through data of open files)
ResyncListing(d, mlst, id, nm) ==
  LET al == AbsListing(d, id) IN [i \in 1..Len(al) |-> IF al[i].n = nm THEN al[i] ELSE ModelEntryOr(mlst, al[i])]
UninvolvedOK(d, dv, id, nm) ==
  /\ \A x \in DOMAIN dv : x \in GoodDirIds(d)
  /\ \A x \in DOMAIN dv : DiskViewL(IF x = id THEN WithoutName(dv[x], nm) ELSE dv[x]) = (IF x = id THEN WithoutName(AbsListing(d, x), nm) ELSE AbsListing(d, x))
NoDupNames(d) == \A id \in GoodDirIds(d) : NamesUnique(d, id)

TRetFault ==
  /\ IsEv("Ret") /\ ~dead /\ call # NoCall /\ flt /\ Rec[l].r.k # "panic" /\ ~("panicked" \in DOMAIN call.a)
  /\ LET e == Rec[l]  r == e.r  a == call.a  op == call.op  v == call.vol
         fileop == op \in {"read", "write", "flush", "close_file", "seek_start", "seek_end", "seek_cur", "length", "offset", "eof"} /\ HasH(ofiles, a.f)
         dirop == op \in {"open_file", "delete", "mkdir", "open_dir", "change_dir", "find"} /\ HasH(odirs, a.d) /\ a.nmok
         f == IF fileop THEN RecOf(ofiles, a.f) ELSE [vol |-> 0, dir |-> 0, n |-> ""]
         id == IF fileop THEN f.dir ELSE IF dirop THEN RecOf(odirs, a.d).id ELSE 0
         nm == IF fileop THEN f.n ELSE IF dirop THEN a.nm ELSE ""
         d == IF v # 0 THEN disk[v] ELSE disk[1]
         reported == r.k = "err"
         intact == v = 0 \/ UninvolvedOK(d, dirs[v], id, nm)
         \* the involved directory after the call, re-read
         lst1 == IF v # 0 /\ id \in DOMAIN dirs[v] /\ id \in GoodDirIds(d) THEN ResyncListing(d, dirs[v][id], id, nm) ELSE <<>>
         \* a failed write: length / offset as the library reports them, data from the medium
         o == IF fileop /\ \E j \in 1..Len(e.obs) : e.obs[j].h = a.f THEN e.obs[CHOOSE j \in 1..Len(e.obs) : e.obs[j].h = a.f] ELSE [h |-> -1, len |-> 0, off |-> 0]
         heads == IF v # 0 THEN OrphanHeads(d) \ OrphanHeads(pre[v]) ELSE {}
         st0 == IF fileop THEN FileStart(d, f) ELSE 0
         \* a cluster allocated by the failed call belongs to the file only if data reached it
         \* (otherwise it may be a lost cluster the library knows nothing about)
         wanted == IF fileop /\ op = "write" /\ o.len > 0 THEN SubSeq(Overwrite(FileData(f), f.off, a.vals), 1, o.len) ELSE <<>>
         cands == {x \in heads : o.len > 0 /\ DataOf(d, x, o.len) = wanted}
         \* ... or the library kept it all the same: bound tentatively (fcq), settled by the next write
         tent == fileop /\ op = "write" /\ st0 = 0 /\ cands = {} /\ Cardinality(heads) = 1
         fc1 == IF ~fileop THEN 0 ELSE IF st0 # 0 THEN f.fc ELSE IF Cardinality(cands) = 1 THEN CHOOSE x \in cands : TRUE
                ELSE IF tent THEN CHOOSE x \in heads : TRUE ELSE 0
         st1 == IF st0 # 0 THEN st0 ELSE fc1
         lst2 == IF fileop /\ op = "write" /\ o.h # -1 /\ o.len >= 0
                 THEN [i \in 1..Len(lst1) |-> IF lst1[i].n = nm THEN [ModelEntryOr(dirs[v][id], lst1[i]) EXCEPT !.data = DataOf(d, st1, o.len), !.len = lst1[i].len, !.mt = lst1[i].mt] ELSE lst1[i]]
                 ELSE IF fileop
                 THEN [i \in 1..Len(lst1) |-> IF lst1[i].n = nm THEN [ModelEntryOr(dirs[v][id], lst1[i]) EXCEPT !.len = lst1[i].len, !.mt = lst1[i].mt] ELSE lst1[i]]
                 ELSE lst1
         \* a directory the failed mkdir may have created
         newid == IF op = "mkdir" /\ \E i \in 1..Len(lst2) : lst2[i].n = nm /\ lst2[i].k = "dir" THEN lst2[CHOOSE i \in 1..Len(lst2) : lst2[i].n = nm].id ELSE 0
         dirs1 == IF v = 0 \/ (lst1 = <<>> /\ ~(id \in DOMAIN dirs[v])) THEN dirs
                  ELSE [dirs EXCEPT ![v] = [x \in (DOMAIN dirs[v]) \cup (IF newid # 0 THEN {newid} ELSE {}) |->
                                               IF x = id THEN lst2 ELSE IF x = newid /\ newid \notin DOMAIN dirs[v] THEN AbsListing(d, newid) ELSE dirs[v][x]]]
     IN /\ dirs' = dirs1
        /\ ofiles' = IF op = "close_file" /\ fileop THEN DropAt(ofiles, IdxOf(ofiles, a.f))
                     ELSE IF fileop /\ o.h # -1 /\ o.off >= 0
                     THEN [ofiles EXCEPT ![IdxOf(ofiles, a.f)] = [@ EXCEPT !.off = o.off, !.fc = fc1, !.fcq = (IF st0 # 0 THEN @ ELSE tent), !.dirty = (@ \/ op = "write")]]
                     ELSE ofiles
        /\ UNCHANGED <<ovols, odirs, lim>>
        /\ viol' = Report(
               (IF reported THEN {} ELSE {<<"C11", "FaultReported", op \o " returned " \o r.k \o " although a block-device call failed inside it">>})
          \cup (IF intact THEN {} ELSE {<<"C11", "UninvolvedIntact", "a file or directory not involved in the failed " \o op \o " changed on the medium">>})
          \cup (IF v = 0 \/ NoDupNames(d) THEN {} ELSE {<<"C11", "NoDuplicateNames", "a directory holds a name twice after the failed " \o op>>}))
        /\ dead' = ~intact
        /\ dur' = IF v # 0 /\ nm # "" THEN [dur EXCEPT ![v] = {x \in @ : ~(x.dir = id /\ x.n = nm)}] ELSE dur
  /\ call' = NoCall /\ flt' = FALSE
  /\ l' = l + 1
  /\ UNCHANGED <<lenient, hid, disk, disk0, pre, minfo, fltd, wfseen>>

\* skipping the rest of a dead history
TSkip ==
  /\ dead /\ l <= Len(Rec) /\ Rec[l].ev # "Reset"
  /\ l' = l + 1
  /\ UNCHANGED <<lenient, hid, disk, disk0, pre, call, dur, minfo, flt, fltd, dead, wfseen, viol, apiVars>>

TDone ==
  /\ l = Len(Rec) + 1
  /\ PrintT(<<"DONE", Len(Rec), Cardinality(viol)>>)
  /\ UNCHANGED tvars

TInit ==
  /\ l = 1 /\ hid = "" /\ disk = <<>> /\ disk0 = <<>> /\ pre = <<>> /\ call = NoCall
  /\ dur = <<>> /\ minfo = <<>> /\ flt = FALSE /\ fltd = FALSE /\ dead = FALSE /\ lenient = FALSE /\ wfseen = {} /\ viol = {}
  /\ dirs = <<>> /\ ovols = <<>> /\ odirs = <<>> /\ ofiles = <<>> /\ lim = [d |-> 0, f |-> 0, v |-> 0]

TNext == TReset \/ TCall \/ TW \/ TFail \/ TRemount \/ TCrashMount \/ TRet \/ TRetPanic \/ TRetFault \/ TSkip \/ TDone
TSpec == TInit /\ [][TNext]_tvars

Post == PrintT(<<"DEPTH", TLCGet("stats").diameter, Len(Rec)>>)
=============================================================================
