------------------------------- MODULE SdHost -------------------------------
(***************************************************************************)
(* The SD/SPI driver (src/sdcard/mod.rs) as a state machine, composed with  *)
(* the card of SdCard.tla.  One step per bus primitive of the driver:       *)
(*   a command (wait-not-busy + frame + R1 + extra bytes), a data block     *)
(*   read, a data block written, the stop token, the busy waits.            *)
(* The card's nondeterminism is explored exhaustively: how many ACMD41      *)
(* rounds it needs, when it is busy, and - up to MaxFaults times per        *)
(* behaviour - the misbehaviours of C13: no reply, an error R1, an SPI bus  *)
(* failure, a wrong CMD8 echo, damaged / missing / error data tokens, a     *)
(* rejected or failed write, a card that stays busy, a bad write status.    *)
(* Budgets (retry counts) are small constants; response and token delays    *)
(* within the budget do not change what the driver does and are left to the *)
(* conformance runs, which draw them at random.                             *)
(*                                                                         *)
(* Properties (checked by TLC over every reachable state):                  *)
(*   Legal         every command, data block and stop token the driver      *)
(*                 sends is legal for the card state (C14)                  *)
(*   ReadExact / WriteExact / KindRight / HealthyOk      (C12)              *)
(*   FaultIsError / FailedInitForgets / Terminates       (C13)              *)
(* The Bug* constants re-introduce defects that were found in the driver;   *)
(* each makes TLC report a violation (regression configurations).           *)
(***************************************************************************)
EXTENDS SdCard, TLC

CONSTANTS Kind,        \* "sd1" | "sd2" | "sdhc"
          UseCrc,
          NB,          \* blocks on the card
          MaxN,        \* longest transfer
          MaxFaults, MaxOps,
          A41Set,      \* how many ACMD41 rounds the card may need
          Retries,     \* acquire_retries
          LoopBud,     \* budget of the CMD8 / ACMD41 loops
          BugNoStopWait, BugIgnoreR1, BugNoTerminate, BugKeepType, BugNoStatus, BugPreCount

VARIABLES card, busy, dq, mem, h, faults, gh, ret, log
vars == <<card, busy, dq, mem, h, faults, gh, ret, log>>
view == <<card, busy, dq, mem, h, faults, gh, ret>>

\* busy: "no" | "pend" (busy begins with the next clock byte: after the stop token) | "fin" | "inf"
Clocked(b) == IF b = "pend" THEN "fin" ELSE b
AfterWait(b) == IF b = "fin" THEN "no" ELSE IF b = "pend" THEN "fin" ELSE b   \* wait_not_busy returned Ok

ArgOf(ct, b) == IF ct = "sdhc" THEN <<b \div 65536, b % 65536>> ELSE <<b \div 128, (b % 128) * 512>>

NoRet == [op |-> "none"]
Init ==
  /\ \E a \in A41Set : card = InitCard(a)
  /\ busy = "no" /\ dq = "none"
  /\ mem = [b \in 0..(NB - 1) |-> b]
  /\ h = [pc |-> "idle", ct |-> "none", op |-> "none", blk |-> 0, n |-> 0, i |-> 0, tries |-> 0, bud |-> 0, ctmp |-> "none",
          a41h |-> 0, res |-> "ok", got |-> <<>>, nops |-> 0, used |-> 0, acq |-> FALSE, excuse |-> FALSE, mem0 |-> [b \in 0..(NB - 1) |-> b]]
  /\ faults = MaxFaults
  /\ gh = [ill |-> {}, lost |-> FALSE, spi |-> FALSE, must |-> FALSE, flip |-> FALSE, acqfail |-> FALSE]
  /\ ret = NoRet
  /\ log = <<>>

\* ------------------------------------------------------------------ a command
\* outcomes of card_command(idx, arg): [k, r1, card, busy, ill, lost, used, must, dq]
Issue(idx, ah, al) ==
  LET waits == idx \notin {0, 12}
      bf == IF waits THEN AfterWait(busy) ELSE Clocked(busy)
      e == [idx |-> idx, acmd |-> card.app, ah |-> ah, al |-> al, crcok |-> TRUE, endbit |-> TRUE, busy |-> bf # "no"]
      why == HostLegalWhy(card, Kind, e)
      ill == IF why = "ok" THEN {} ELSE {why}
      r1h == CardR1(card, Kind, NB, e)
      cn == [CardNext(card, Kind, NB, e, r1h) EXCEPT !.ident = IdentNext(card, Kind, e, r1h)]
      skipped == [card EXCEPT !.app = FALSE, !.last = idx]
      inTransfer == card.mode # "Cmd"
      stopsRead == idx = 12 /\ card.mode = "RdMulti"
      busyH == IF idx = 0 /\ r1h = 1 THEN "no" ELSE IF stopsRead THEN "fin" ELSE bf
      dqH == IF r1h = 0 /\ ~e.acmd /\ idx \in {9, 17} THEN "one" ELSE IF r1h = 0 /\ ~e.acmd /\ idx = 18 THEN "stream" ELSE "none"
      mustT == idx # 0
      mustR == idx \in {9, 13, 17, 18, 24, 25, 58, 59}
  IN IF waits /\ busy = "inf"
     THEN {[k |-> "wnb", r1 |-> -1, card |-> card, busy |-> busy, ill |-> {}, lost |-> FALSE, used |-> 0, must |-> TRUE, dq |-> dq, f |-> "none"]}
     ELSE {[k |-> "r1", r1 |-> r1h, card |-> cn, busy |-> busyH, ill |-> ill, lost |-> FALSE, used |-> 0, must |-> FALSE, dq |-> dqH, f |-> "none"]}
          \cup (IF faults > 0 THEN
                 \* a card that ignores the stop command keeps streaming: the driver takes a data byte for the reply
                 \* (or times out, when the bytes of the stream all happen to have the top bit set)
                 {[k |-> "timeout", r1 |-> -1, card |-> skipped, busy |-> bf, ill |-> ill, lost |-> inTransfer, used |-> 1,
                   must |-> mustT /\ ~(stopsRead /\ dq = "stream"), dq |-> dq, f |-> "silent"],
                  IF stopsRead /\ dq = "stream"
                  THEN [k |-> "r1", r1 |-> 0, card |-> skipped, busy |-> bf, ill |-> ill, lost |-> TRUE, used |-> 1, must |-> FALSE, dq |-> dq, f |-> "silent"]
                  ELSE [k |-> "timeout", r1 |-> -1, card |-> skipped, busy |-> bf, ill |-> ill, lost |-> inTransfer, used |-> 1, must |-> mustT, dq |-> dq, f |-> "silent"],
                  \* the frame arrives, the bus fails while the reply is read: the aborted transaction releases the card
                  [k |-> "spi", r1 |-> -1, card |-> [cn EXCEPT !.mode = "Cmd", !.app = FALSE, !.last = -1], busy |-> IF idx = 0 /\ r1h = 1 THEN "no" ELSE bf, ill |-> ill,
                   lost |-> FALSE, used |-> 1, must |-> TRUE, dq |-> "none", f |-> "spi"]}
                 \cup (IF stopsRead THEN {} ELSE
                 {[k |-> "r1", r1 |-> 32 + IdleBit(card), card |-> skipped, busy |-> bf, ill |-> ill, lost |-> inTransfer, used |-> 1, must |-> mustR,
                   dq |-> dq, f |-> "r1err"]})
               ELSE {})

Ghost(o) == [gh EXCEPT !.ill = IF gh.lost \/ gh.spi THEN @ ELSE @ \cup o.ill,
                       !.lost = @ \/ o.lost, !.spi = @ \/ o.k = "spi", !.must = @ \/ o.must]

\* apply a command outcome; hh is the driver's next local state
Apply(idx, o, hh) ==
  /\ h' = [hh EXCEPT !.used = h.used + o.used]
  /\ card' = o.card /\ busy' = o.busy /\ dq' = o.dq
  /\ faults' = faults - o.used
  /\ gh' = (LET g == Ghost(o) IN IF idx = 0 /\ o.k = "r1" /\ o.r1 = 1 THEN [g EXCEPT !.lost = FALSE] ELSE g)
  /\ mem' = (LET k == IF o.k = "r1" /\ o.f = "none" THEN PreErased(card, [idx |-> idx, acmd |-> card.app], o.r1) ELSE 0
                  b == o.card.cur
              IN [x \in DOMAIN mem |-> IF x >= b /\ x < b + k THEN -7 ELSE mem[x]])       \* pre-erase announced by ACMD23
  /\ log' = Append(log, IF o.k = "wnb" THEN <<"wnb", idx>> ELSE <<"cmd", idx, o.f>>)    \* no frame goes out when the card stays busy
  /\ UNCHANGED ret

\* the call returns
Return(hh, res) == [hh EXCEPT !.pc = "ret", !.res = res]
ErrOf(o, idx) == IF o.k = "wnb" THEN "TimeoutWaitNotBusy" ELSE IF o.k = "spi" THEN "Transport" ELSE "TimeoutCommand"

\* ------------------------------------------------------------------ calls
Pay(k, i) == 10 * (k + 1) + i
StartOf(op, n) == CASE op = "read" -> IF n = 1 THEN "r17" ELSE "r18"
                    [] op = "write" -> IF n = 1 THEN "w24" ELSE "w55"
                    [] op = "num_blocks" -> "c9"
                    [] OTHER -> "ret"
Begin(op, b, n) ==
  /\ h.pc = "idle" /\ h.nops < MaxOps
  /\ h' = [h EXCEPT !.op = op, !.blk = b, !.n = n, !.i = 0, !.res = "ok", !.got = <<>>, !.used = 0,
                    !.excuse = (busy = "inf" \/ gh.lost \/ card.a41need > LoopBud \/ b + n > NB \/ b >= NB),
                    !.acq = (h.ct = "none" /\ op # "mark_uninit"), !.mem0 = mem,
                    !.tries = Retries,
                    !.ct = IF op = "mark_uninit" THEN "none" ELSE h.ct,
                    !.pc = IF op = "mark_uninit" THEN "ret" ELSE IF h.ct = "none" THEN "a0" ELSE StartOf(op, n)]
  /\ gh' = [gh EXCEPT !.spi = FALSE, !.must = FALSE, !.flip = FALSE, !.acqfail = FALSE]
  /\ ret' = NoRet
  /\ log' = Append(log, <<"call", op, b, n>>)
  /\ UNCHANGED <<card, busy, dq, mem, faults>>

Call ==
  \/ Begin("card_type", 0, 0) \/ Begin("num_blocks", 0, 0) \/ Begin("mark_uninit", 0, 0)
  \/ \E b \in 0..NB, n \in 0..MaxN : (b + n <= NB \/ b = NB) /\ (Begin("read", b, n) \/ Begin("write", b, n))

Ret ==
  /\ h.pc = "ret"
  /\ ret' = [op |-> h.op, res |-> h.res, got |-> h.got, blk |-> h.blk, n |-> h.n, k |-> h.nops, used |-> h.used, excuse |-> h.excuse, acq |-> h.acq]
  /\ h' = [h EXCEPT !.pc = "idle", !.nops = h.nops + 1]
  /\ log' = Append(log, <<"ret", h.res>>)
  /\ UNCHANGED <<card, busy, dq, mem, faults, gh>>

\* ------------------------------------------------------------------ acquire
AcqFail(hh, res) == [hh EXCEPT !.pc = "afin", !.res = res, !.ct = IF BugKeepType /\ hh.ctmp # "none" THEN hh.ctmp ELSE "none"]
A0 == /\ h.pc = "a0"
      /\ \E o \in Issue(0, 0, 0) :
           Apply(0, o, IF o.k = "spi" THEN AcqFail(h, "Transport")
                       ELSE IF o.k = "r1" /\ o.r1 = 1 THEN [h EXCEPT !.pc = IF UseCrc THEN "a59" ELSE "a8", !.bud = LoopBud, !.ctmp = "none"]
                       ELSE IF h.tries = 0 THEN AcqFail(h, "CardNotFound")
                       ELSE [h EXCEPT !.tries = @ - 1])
A59 == /\ h.pc = "a59"
       /\ \E o \in Issue(59, 0, 1) :
            Apply(59, o, IF o.k # "r1" THEN AcqFail(h, ErrOf(o, 59))
                         ELSE IF o.r1 = 1 THEN [h EXCEPT !.pc = "a8", !.bud = LoopBud] ELSE AcqFail(h, "CantEnableCRC"))
\* CMD8 and the four bytes that follow
A8 == /\ h.pc = "a8"
      /\ \E o \in Issue(8, 0, 426) :
          \E echo \in (IF o.k = "r1" /\ o.f = "none" /\ o.r1 \in {0, 1} /\ Kind # "sd1"
                       THEN {"ok"} \cup (IF faults > 0 THEN {"bad"} ELSE {}) ELSE {"none"}) :
            LET o2 == IF echo = "bad" THEN [o EXCEPT !.used = 1, !.f = "badecho"] ELSE o IN
            Apply(8, o2, IF o.k # "r1" THEN AcqFail(h, ErrOf(o, 8))
                         ELSE IF o.r1 = 5 THEN [h EXCEPT !.pc = "a55", !.ctmp = "sd1", !.a41h = 0, !.bud = LoopBud]
                         ELSE IF echo = "ok" THEN [h EXCEPT !.pc = "a55", !.ctmp = "sd2", !.a41h = 16384, !.bud = LoopBud]
                         ELSE IF h.bud = 0 THEN AcqFail(h, "TimeoutCommand")
                         ELSE [h EXCEPT !.bud = @ - 1])
A55 == /\ h.pc = "a55"
       /\ \E o \in Issue(55, 0, 0) :
            Apply(55, o, IF o.k # "r1" THEN AcqFail(h, ErrOf(o, 55)) ELSE [h EXCEPT !.pc = "a41"])
A41 == /\ h.pc = "a41"
       /\ \E o \in Issue(41, h.a41h, 0) :
            Apply(41, o, IF o.k # "r1" THEN AcqFail(h, ErrOf(o, 41))
                         ELSE IF o.r1 = 0 THEN (IF h.ctmp = "sd2" THEN [h EXCEPT !.pc = "a58"] ELSE [h EXCEPT !.pc = "afin", !.ct = h.ctmp, !.res = "ok"])
                         ELSE IF h.bud = 0 THEN AcqFail(h, "TimeoutACommand")
                         ELSE [h EXCEPT !.bud = @ - 1, !.pc = "a55"])
A58 == /\ h.pc = "a58"
       /\ \E o \in Issue(58, 0, 0) :
            LET ccs == Kind = "sdhc" /\ card.ready IN
            Apply(58, o, IF o.k # "r1" THEN AcqFail(h, ErrOf(o, 58))
                         ELSE IF o.r1 # 0 THEN AcqFail(h, "Cmd58Error")
                         ELSE [h EXCEPT !.pc = "afin", !.ct = IF ccs THEN "sdhc" ELSE "sd2", !.res = "ok"])
\* the trailing clock byte; then the call proper, or the error
AFin == /\ h.pc = "afin"
        /\ busy' = Clocked(busy)
        /\ h' = IF h.res = "ok" THEN [h EXCEPT !.pc = StartOf(h.op, h.n)] ELSE [h EXCEPT !.pc = "ret"]
        /\ gh' = [gh EXCEPT !.acqfail = h.res # "ok"]
        /\ UNCHANGED <<card, dq, mem, faults, ret, log>>

\* ------------------------------------------------------------------ data from the card
\* outcomes of read_data: <<status, fault used>>
DataOutcomes == IF dq = "none" THEN {<<"notoken", 0>>}
                ELSE {<<"ok", 0>>} \cup (IF faults > 0 THEN {<<"flip", 1>>, <<"errtoken", 1>>, <<"badtoken", 1>>, <<"notoken", 1>>, <<"spi", 1>>} ELSE {})
DataErr(s) == CASE s = "notoken" -> "TimeoutReadBuffer" [] s = "flip" -> "CrcError" [] s = "spi" -> "Transport" [] OTHER -> "ReadError"
\* the card side of one block
Released(c) == [c EXCEPT !.mode = "Cmd", !.app = FALSE, !.last = -1]
CardAfterData(s) == IF s = "spi" THEN Released(card) ELSE IF dq = "stream" /\ s \in {"ok", "flip"} THEN [card EXCEPT !.cur = @ + 1] ELSE card
DqAfterData(s) == IF dq = "stream" /\ s \notin {"notoken", "spi"} THEN "stream" ELSE "none"
GoodData(s) == s = "ok" \/ (s = "flip" /\ ~UseCrc)
ReadStep(s, u, hh) ==
  /\ h' = [hh EXCEPT !.used = h.used + u]
  /\ card' = CardAfterData(s[1]) /\ dq' = DqAfterData(s[1])
  /\ faults' = faults - u
  /\ gh' = [gh EXCEPT !.must = @ \/ (s[1] \in {"errtoken", "badtoken", "notoken", "spi"}) \/ (s[1] = "flip" /\ UseCrc),
                      !.flip = @ \/ s[1] = "flip", !.spi = @ \/ s[1] = "spi"]
  /\ log' = Append(log, <<"data", s[1]>>)
  /\ UNCHANGED <<busy, mem, ret>>
Val(s) == IF s = "flip" THEN -1 ELSE IF card.cur \in DOMAIN mem THEN mem[card.cur] ELSE -9

R17 == /\ h.pc = "r17"
       /\ LET a == ArgOf(h.ct, h.blk) IN
          \E o \in Issue(17, a[1], a[2]) :
            Apply(17, o, IF o.k # "r1" THEN Return(h, ErrOf(o, 17))
                         ELSE IF o.r1 # 0 /\ ~BugIgnoreR1 THEN Return(h, "ReadError") ELSE [h EXCEPT !.pc = "rdata"])
RData == /\ h.pc = "rdata"
         /\ \E s \in DataOutcomes :
              ReadStep(s, s[2], IF GoodData(s[1]) THEN Return([h EXCEPT !.got = <<Val(s[1])>>], "ok") ELSE Return(h, DataErr(s[1])))
R18 == /\ h.pc = "r18"
       /\ LET a == ArgOf(h.ct, h.blk) IN
          \E o \in Issue(18, a[1], a[2]) :
            Apply(18, o, IF o.k # "r1" THEN Return(h, ErrOf(o, 18))
                         ELSE IF o.r1 # 0 /\ ~BugIgnoreR1 THEN Return(h, "ReadError") ELSE [h EXCEPT !.pc = IF h.n = 0 THEN "r12" ELSE "rmdata", !.i = 0])
RMData == /\ h.pc = "rmdata"
          /\ \E s \in DataOutcomes :
               ReadStep(s, s[2], IF GoodData(s[1])
                                 THEN [h EXCEPT !.got = Append(@, Val(s[1])), !.i = @ + 1, !.pc = IF h.i + 1 = h.n THEN "r12" ELSE "rmdata"]
                                 ELSE IF BugNoTerminate THEN Return(h, DataErr(s[1])) ELSE [h EXCEPT !.res = DataErr(s[1]), !.pc = "r12"])
R12 == /\ h.pc = "r12"
       /\ \E o \in Issue(12, 0, 0) :
            Apply(12, o, IF h.res # "ok" THEN Return(h, h.res) ELSE IF o.k # "r1" THEN Return(h, ErrOf(o, 12)) ELSE Return(h, "ok"))

\* the CSD register
C9 == /\ h.pc = "c9"
      /\ \E o \in Issue(9, 0, 0) :
           Apply(9, o, IF o.k # "r1" THEN Return(h, ErrOf(o, 9)) ELSE IF o.r1 # 0 THEN Return(h, "RegisterReadError") ELSE [h EXCEPT !.pc = "cdata"])
CData == /\ h.pc = "cdata"
         /\ \E s \in DataOutcomes :
              ReadStep(s, s[2], IF GoodData(s[1]) THEN Return([h EXCEPT !.got = <<IF s[1] = "flip" THEN -1 ELSE -5>>], "ok") ELSE Return(h, DataErr(s[1])))

\* ------------------------------------------------------------------ data to the card
WrOutcomes == {<<"ok", 0>>} \cup (IF faults > 0 /\ card.mode \in {"WrSingle", "WrMulti"}
                                  THEN {<<"crcreject", 1>>, <<"writeerr", 1>>, <<"garbage", 1>>, <<"busyforever", 1>>, <<"spi", 1>>, <<"spitok", 1>>} ELSE {})
\* write_data(token, block i): the driver's next state depends on whether the card accepted
WriteStep(token, s, hhAcc, hhRej) ==
  LET inmode == card.mode \in {"WrSingle", "WrMulti"}
      tokok == (card.mode = "WrSingle" /\ token = 254) \/ (card.mode = "WrMulti" /\ token = 252)
      spi == s[1] \in {"spi", "spitok"}
      acc == inmode /\ tokok /\ s[1] \in {"ok", "busyforever"}
      stored == inmode /\ tokok /\ s[1] \in {"ok", "busyforever", "spi"} /\ card.cur \in DOMAIN mem
      ill == (IF ~inmode THEN {"data block sent although no write command is in progress"} ELSE {})
         \cup (IF inmode /\ ~tokok THEN {"wrong start token for this write command"} ELSE {})
         \cup (IF busy # "no" THEN {"data block sent while the card signals busy"} ELSE {})
  IN /\ h' = [(IF acc THEN hhAcc ELSE IF spi THEN [hhRej EXCEPT !.res = "Transport"] ELSE hhRej) EXCEPT !.used = h.used + s[2]]
     /\ mem' = IF stored THEN [mem EXCEPT ![card.cur] = Pay(h.nops, h.i)] ELSE mem
     /\ card' = IF spi THEN Released(card)
                ELSE IF card.mode = "WrSingle" THEN [card EXCEPT !.mode = "Cmd"]
                ELSE IF card.mode = "WrMulti" /\ acc THEN [card EXCEPT !.cur = @ + 1] ELSE card
     /\ busy' = IF s[1] = "busyforever" THEN "inf" ELSE IF s[1] = "spitok" THEN busy ELSE IF inmode THEN "fin" ELSE busy
     /\ faults' = faults - s[2]
     /\ gh' = [gh EXCEPT !.ill = IF gh.lost \/ gh.spi \/ s[1] = "spitok" THEN @ ELSE @ \cup ill, !.must = @ \/ s[2] = 1 \/ ~acc, !.spi = @ \/ spi]
     /\ log' = Append(log, <<"wr", s[1]>>)
     /\ UNCHANGED <<dq, ret>>

W24 == /\ h.pc = "w24"
       /\ LET a == ArgOf(h.ct, h.blk) IN
          \E o \in Issue(24, a[1], a[2]) :
            Apply(24, o, IF o.k # "r1" THEN Return(h, ErrOf(o, 24))
                         ELSE IF o.r1 # 0 /\ ~BugIgnoreR1 THEN Return(h, "WriteError") ELSE [h EXCEPT !.pc = "wblk"])
WBlk == /\ h.pc = "wblk"
        /\ \E s \in WrOutcomes : WriteStep(254, s, [h EXCEPT !.pc = IF BugNoStatus THEN "ret" ELSE "w13"], Return(h, "WriteError"))
\* wait_not_busy, CMD13 and the second status byte
W13 == /\ h.pc = "w13"
       /\ \E o \in Issue(13, 0, 0) :
           \E st \in (IF o.k = "r1" /\ o.f = "none" /\ o.r1 = 0 /\ faults > 0 THEN {"ok", "status", "status1"} ELSE {"ok"}) :
             LET o2 == IF st = "ok" THEN o ELSE [o EXCEPT !.used = 1, !.f = st, !.must = TRUE, !.r1 = IF st = "status1" THEN 64 ELSE 0] IN
             Apply(13, o2, IF o.k # "r1" THEN Return(h, ErrOf(o, 13))
                           ELSE IF o2.r1 # 0 THEN Return(h, "WriteError")
                           ELSE IF st = "status" THEN Return(h, "WriteError") ELSE Return(h, "ok"))

W55 == /\ h.pc = "w55"
       /\ \E o \in Issue(55, 0, 0) : Apply(55, o, IF o.k # "r1" THEN Return(h, ErrOf(o, 55)) ELSE [h EXCEPT !.pc = "w23"])
W23 == /\ h.pc = "w23"
       /\ \E o \in Issue(23, 0, IF BugPreCount THEN 2 * h.n ELSE h.n) : Apply(23, o, IF o.k # "r1" THEN Return(h, ErrOf(o, 23)) ELSE [h EXCEPT !.pc = "w25"])
W25 == /\ h.pc = "w25"
       /\ LET a == ArgOf(h.ct, h.blk) IN
          \E o \in Issue(25, a[1], a[2]) :
            Apply(25, o, IF o.k # "r1" THEN Return(h, ErrOf(o, 25))
                         ELSE IF o.r1 # 0 /\ ~BugIgnoreR1 THEN Return(h, "WriteError") ELSE [h EXCEPT !.pc = IF h.n = 0 THEN "wstop" ELSE "wmwait", !.i = 0])
\* wait_not_busy before each block
Wait(pcOk, hhFail) ==
  /\ h' = IF busy = "inf" THEN hhFail ELSE [h EXCEPT !.pc = pcOk]
  /\ busy' = IF busy = "inf" THEN busy ELSE AfterWait(busy)
  /\ gh' = [gh EXCEPT !.must = @ \/ busy = "inf"]
  /\ UNCHANGED <<card, dq, mem, faults, ret, log>>
WMWait == /\ h.pc = "wmwait"
          /\ Wait("wmblk", IF BugNoTerminate THEN Return(h, "TimeoutWaitNotBusy") ELSE [h EXCEPT !.res = "TimeoutWaitNotBusy", !.pc = "wstop"])
WMBlk == /\ h.pc = "wmblk"
         /\ \E s \in WrOutcomes :
              WriteStep(252, s, [h EXCEPT !.i = @ + 1, !.pc = IF h.i + 1 = h.n THEN "wstop" ELSE "wmwait"],
                        IF BugNoTerminate THEN Return(h, "WriteError") ELSE [h EXCEPT !.res = "WriteError", !.pc = "wstop"])
\* stop_multi_write: wait, stop token, one byte, wait
WStop == /\ h.pc = "wstop"
         /\ Wait("wtok", Return(h, IF h.res # "ok" THEN h.res ELSE "TimeoutWaitNotBusy"))
WTokSpi == /\ h.pc = "wtok" /\ faults > 0
           /\ card' = Released(card) /\ faults' = faults - 1
           /\ h' = [Return(h, IF h.res # "ok" THEN h.res ELSE "Transport") EXCEPT !.used = h.used + 1]
           /\ gh' = [gh EXCEPT !.spi = TRUE, !.must = TRUE]
           /\ log' = Append(log, <<"stopspi">>)
           /\ UNCHANGED <<busy, dq, mem, ret>>
WTok == /\ h.pc = "wtok"
        /\ LET ill == (IF card.mode = "WrMulti" THEN {} ELSE {"stop token outside a multi-block write"})
                 \cup (IF busy # "no" THEN {"stop token sent while the card signals busy"} ELSE {}) IN
           gh' = [gh EXCEPT !.ill = IF gh.lost \/ gh.spi THEN @ ELSE @ \cup ill]
        /\ card' = IF card.mode = "WrMulti" THEN [card EXCEPT !.mode = "Cmd"] ELSE card
        \* the card takes one byte to react: the driver skips it, then waits
        /\ busy' = IF BugNoStopWait THEN "pend" ELSE "fin"
        /\ h' = [h EXCEPT !.pc = IF BugNoStopWait THEN "ret" ELSE "wend"]
        /\ log' = Append(log, <<"stop">>)
        /\ UNCHANGED <<dq, mem, faults, ret>>
WEnd == /\ h.pc = "wend"
        /\ Wait("ret", Return(h, IF h.res # "ok" THEN h.res ELSE "TimeoutWaitNotBusy"))

HostStep == A0 \/ A59 \/ A8 \/ A55 \/ A41 \/ A58 \/ AFin \/ R17 \/ RData \/ R18 \/ RMData \/ R12 \/ C9 \/ CData
            \/ W24 \/ WBlk \/ W13 \/ W55 \/ W23 \/ W25 \/ WMWait \/ WMBlk \/ WStop \/ WTok \/ WTokSpi \/ WEnd \/ Ret
Next == Call \/ HostStep
Spec == Init /\ [][Next]_vars /\ WF_vars(HostStep)

\* ------------------------------------------------------------------ properties
Legal == gh.ill = {}                                                          \* C14
Returned == ret # NoRet /\ h.pc = "idle"
ReadExact == Returned /\ ret.op = "read" /\ ret.res = "ok" /\ ~gh.flip        \* C12
               => ret.got = [i \in 1..ret.n |-> mem[ret.blk + i - 1]]
WriteExact == Returned /\ ret.op = "write" /\ ret.res = "ok"
               => \A i \in 0..(ret.n - 1) : mem[ret.blk + i] = Pay(ret.k, i)
\* ... and nowhere else (a write that succeeds changes its own blocks only; any other call changes none)
NowhereElse == Returned /\ ret.res = "ok" => \A b \in DOMAIN mem : (ret.op = "write" /\ b >= ret.blk /\ b < ret.blk + ret.n) \/ mem[b] = h.mem0[b]
KindRight == h.ct # "none" /\ h.pc \notin {"afin"} => h.ct = Kind
HealthyOk == Returned /\ ret.used = 0 /\ ~ret.excuse => ret.res = "ok"
FaultIsError == Returned /\ gh.must => ret.res # "ok"                         \* C13
FailedInitForgets == Returned /\ gh.acqfail => h.ct = "none"
NothingStoredOnFailure == TRUE
Terminates == (h.pc # "idle") ~> (h.pc = "idle")
TypeOK == busy \in {"no", "pend", "fin", "inf"} /\ dq \in {"none", "one", "stream"} /\ faults \in 0..MaxFaults
=============================================================================
