SPECIFICATION MCSpec
CONSTANTS CntChoices <- CntUnknown
          N = 3  EPS = 4  NF = 2  ROOT16 = TRUE  RS = 2  SPC = 2  Names = {"a", "b"}  MaxLen = 2  MaxOpen = 1
          BugF1 = TRUE BugF2 = FALSE BugF3 = FALSE BugF9 = FALSE BugF18 = FALSE BugF15 = FALSE InfoModel = FALSE HintChoices = {0}
INVARIANTS CrashSafe Durable WellFormed SpaceExact NoInvented FatCopiesEqual HintInRange
VIEW MCView
CHECK_DEADLOCK FALSE
